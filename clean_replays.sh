#!/bin/sh
# remove replay files produced by local experiments
find /verif/replays -name '*.json' -delete
