---------------------------- MODULE ValidateFrame ----------------------------
(***************************************************************************)
(* State machine of DataFrameSchema.validate on pandas                      *)
(* (DataFrameSchemaBackend.validate, container.py): one action per stage,    *)
(* the ErrorHandler switch, copy-or-alias of the caller's frame, and one      *)
(* step per schema component with the save / override / restore of the        *)
(* component's attributes that run_schema_component_checks performs.          *)
(***************************************************************************)
EXTENDS Frame

VARIABLES S, inp0, lazy, inplace,   \* the call
          inp, obj, aliased,        \* caller's frame, working frame, same object?
          sch,                      \* the schema object's mutable attributes (coerce flags of its components)
          errs, raised, pc, k, out
vars == <<S, inp0, lazy, inplace, inp, obj, aliased, sch, errs, raised, pc, k, out>>
Call == <<S, inp0, lazy, inplace>>

NoOut == [kind |-> "none"]
SchemaAttrs(schema) == [ i \in 1..Len(schema.cols) |-> schema.cols[i].coerce ]

InitWith(schema, frame, lz) ==
  /\ S = schema /\ inp0 = frame /\ lazy = lz /\ inplace = FALSE
  /\ inp = frame /\ obj = frame /\ aliased = TRUE
  /\ sch = SchemaAttrs(schema)
  /\ errs = <<>> /\ raised = FALSE /\ pc = "preprocess" /\ k = 1 /\ out = NoOut

Collect(new) ==
  IF new = <<>> \/ raised THEN UNCHANGED <<errs, raised>>
  ELSE IF lazy THEN errs' = errs \o new /\ UNCHANGED raised
       ELSE errs' = <<new[1]>> /\ raised' = TRUE

Preprocess ==
  /\ pc = "preprocess"
  /\ aliased' = inplace /\ obj' = inp /\ pc' = "strict"
  /\ UNCHANGED <<Call, inp, sch, errs, raised, k, out>>

Stage(here, next, new) ==
  /\ pc = here
  /\ Collect(new)
  /\ pc' = next
  /\ UNCHANGED <<Call, inp, obj, aliased, sch, k, out>>

StrictFilter  == Stage("strict", "labels", StrictOrderedErrors(S, obj))
LabelsUnique  == Stage("labels", "presence", LabelsUniqueErrors(S, obj))
Presence      == Stage("presence", "joint", PresenceErrors(S, obj))
JointUnique   == Stage("joint", "component", JointUniqueErrors(S, obj))

(* run_schema_component_checks: save coerce, override with False, validate,  *)
(* restore in `finally` -- two steps per component so that the override is a  *)
(* visible state (C05/C06/C07 build on it)                                     *)
ComponentBegin ==
  /\ pc = "component" /\ k <= Len(S.cols)
  /\ sch' = [sch EXCEPT ![k] = FALSE]
  /\ pc' = "component_body"
  /\ UNCHANGED <<Call, inp, obj, aliased, errs, raised, k, out>>
ComponentBody ==
  /\ pc = "component_body"
  /\ Collect(IF ComponentActive(S.cols[k], obj) THEN ColumnComponentErrors(S.cols[k], obj) ELSE <<>>)
  /\ sch' = [sch EXCEPT ![k] = S.cols[k].coerce]       \* finally: restore
  /\ k' = k + 1 /\ pc' = "component"
  /\ UNCHANGED <<Call, inp, obj, aliased, out>>
IndexComponent ==
  /\ pc = "component" /\ k > Len(S.cols)
  /\ Collect(IndexErrorsByPosition(S, obj))
  /\ pc' = "finish"
  /\ UNCHANGED <<Call, inp, obj, aliased, sch, k, out>>

Finish ==
  /\ pc = "finish"
  /\ pc' = "done"
  /\ out' = IF errs = <<>> THEN [kind |-> "ok", returned |-> obj]
            ELSE [kind |-> IF lazy THEN "SchemaErrors" ELSE "SchemaError", errors |-> errs]
  /\ UNCHANGED <<Call, inp, obj, aliased, sch, errs, raised, k>>

Next == Preprocess \/ StrictFilter \/ LabelsUnique \/ Presence \/ JointUnique
          \/ ComponentBegin \/ ComponentBody \/ IndexComponent \/ Finish

---------------------------------------------------------------------------
Done == pc = "done"
VerdictEqualsSemantics == Done => ((out.kind = "ok") <=> FrameSat(S, inp0))
IdentityOnSuccess == Done /\ out.kind = "ok" => out.returned = inp0
(* the machine computes what the functional form computes *)
ReportIsFunctional ==
  Done /\ out.kind # "ok" =>
     IF lazy THEN out.errors = FrameErrorsAsIs(S, inp0) ELSE out.errors = <<FrameErrorsAsIs(S, inp0)[1]>>
(* ideal and as-is reports raise together, and differ only where a named      *)
(* deviation applies                                                          *)
IdealAndAsIsAgreeOnVerdict == (FrameErrors(S, inp0) = <<>>) <=> (FrameErrorsAsIs(S, inp0) = <<>>)
NoCallerMutation == ~inplace => inp = inp0
SchemaRestored == Done => sch = SchemaAttrs(S)
=============================================================================
