---------------------------- MODULE ValidateFrame ----------------------------
(***************************************************************************)
(* DataFrameSchema.validate on pandas (DataFrameSchemaBackend.validate,      *)
(* backends/pandas/container.py).  The run is a record `st`; every stage of   *)
(* the code is an operator st -> st, the state machine takes one stage per    *)
(* step, and Run(st) composes them (see ValidateSeries.tla for the style).    *)
(*                                                                           *)
(*   Preprocess (copy | alias) -> collect_column_info (obj0)                  *)
(*   core parsers: AddMissing -> StrictFilter -> SetDefaults -> CoerceDtype   *)
(*   core checks : LabelsUnique -> Presence -> JointUnique                    *)
(*                 -> ComponentBegin(k) / ComponentBody(k) ... -> Index       *)
(*   Finish (return | raise | drop rows)                                      *)
(*                                                                           *)
(* `sch` is the mutable part of the schema object graph: the coerce flag of    *)
(* every column component, which run_schema_component_checks saves, overrides  *)
(* with False and restores in `finally` (C05/C06/C07 build on this).           *)
(***************************************************************************)
EXTENDS Frame, Parse

NoOut == [kind |-> "none"]
SchemaAttrs(schema) == [ i \in 1..Len(schema.cols) |-> schema.cols[i].coerce ]

Start(schema, frame, lz, ip, dv) ==
  [S |-> schema, inp0 |-> frame, lazy |-> lz, inplace |-> ip, dev |-> dv,
   inp |-> frame, obj |-> frame, obj0 |-> frame, aliased |-> TRUE,
   sch |-> SchemaAttrs(schema),
   errs |-> <<>>, raised |-> FALSE, pc |-> "preprocess", k |-> 1, out |-> NoOut]

Collect(st, new) ==
  IF new = <<>> \/ st.raised THEN st
  ELSE IF st.lazy THEN [st EXCEPT !.errs = @ \o new]
       ELSE [st EXCEPT !.errs = <<new[1]>>, !.raised = TRUE]
Write(st, new) == [st EXCEPT !.obj = new, !.inp = IF st.aliased THEN new ELSE @]
Replace(st, new) == [st EXCEPT !.obj = new, !.aliased = FALSE]      \* the stage builds a new object
Goto(st, next) == [st EXCEPT !.pc = next]

Preprocess(st) ==          \* check_obj.copy() unless inplace; collect_column_info on the result
  Goto([st EXCEPT !.aliased = st.inplace, !.obj = st.inp, !.obj0 = st.inp], "add_missing")

---------------------------------------------------------------------------
(* add_missing_columns *)
ColByKey(S, key) == S.cols[CHOOSE i \in 1..Len(S.cols) : S.cols[i].key = key]
AbsentKeys(S, D) == LET ab == Absent(S, D) IN [ i \in 1..Len(ab) |-> ab[i].key ]
NoDefaultAbsent(S, D) ==
  Filter(Absent(S, D), LAMBDA cs : IsNull(cs.default) /\ ~cs.nullable)

(* the insertion order computed by the code (a faithful transcription of the     *)
(* loop over frame columns with the shrinking list of schema columns)            *)
RECURSIVE TakeAbsent(_, _, _, _)
(* walk the remaining schema list R from position j: absent-and-not-yet-placed names are placed;  *)
(* stops at the first other name (break) -- returns <<placed, broke>>                              *)
TakeAbsent(R, j, absent, placed) ==
  IF j > Len(R) THEN <<placed, FALSE>>
  ELSE IF R[j] \in absent /\ R[j] \notin Range(placed)
       THEN TakeAbsent(R, j + 1, absent, Append(placed, R[j]))
       ELSE <<placed, TRUE>>
RECURSIVE OrderLoop(_, _, _, _, _)
OrderLoop(labs, i, R, absent, O) ==
  IF i > Len(labs) THEN O
  ELSE LET t == TakeAbsent(R, 1, absent, <<>>)
           newly == t[1]
           R1 == IF t[2] THEN Filter(R, LAMBDA x : x \notin Range(newly)) ELSE R   \* popped only on break
           R2 == Filter(R1, LAMBDA x : x # labs[i])
       IN OrderLoop(labs, i + 1, R2, absent, (O \o newly) \o <<labs[i]>>)
MissingOrder(S, D) ==
  LET absent == Range(AbsentKeys(S, D))
      R0 == LET ks == Filter([ i \in 1..Len(S.cols) |-> S.cols[i] ],
                             LAMBDA cs : Present(D, cs.key) \/ cs.required)
            IN [ i \in 1..Len(ks) |-> ks[i].key ]
      O  == OrderLoop(Labels(D), 1, R0, absent, <<>>)
      rest == Filter(AbsentKeys(S, D), LAMBDA x : x \notin Range(O))
  IN O \o rest

NewColumn(cs, D) ==        \* a column of the default value, coerced to the column's dtype
  LET cells == [ r \in 1..NRows(D) |-> cs.default ]
      r == CoerceCells(cs.dtype, cells)
  IN [name |-> cs.key, pd |-> IF cs.dtype = "none" THEN "object" ELSE Phys(cs.dtype), cells |-> r.cells]

InsertMissing(S, D) ==
  LET order == MissingOrder(S, D)
  IN [D EXCEPT !.cols = [ j \in 1..Len(order) |->
                            IF Present(D, order[j]) THEN D.cols[PositionsOf(D, order[j])[1]]
                            ELSE NewColumn(ColByKey(S, order[j]), D) ]]

AddMissing(st) ==
  Goto(IF ~st.S.addmiss \/ Absent(st.S, st.obj0) = <<>> THEN st
       ELSE IF NoDefaultAbsent(st.S, st.obj0) # <<>>
            THEN Collect(st, << FrameErr("ADD_MISSING_COLUMN_NO_DEFAULT", "") >>)
            ELSE Replace(st, InsertMissing(st.S, st.obj)), "strict")

---------------------------------------------------------------------------
(* strict_filter_columns: scans the labels recorded BEFORE add_missing (obj0),   *)
(* raises on the first offender, and drops undeclared columns in place            *)
StrictFilter(st) ==
  LET es == StrictOrderedErrors(st.S, st.obj0)
      st1 == Collect(st, es)
      undeclared == { lab \in Range(Labels(st.obj0)) : ~Declared(st.S, st.obj0, lab) }
  IN Goto(IF es = <<>> /\ st.S.strict = "filter"
          THEN Write(st1, [st1.obj EXCEPT !.cols = Filter(@, LAMBDA c : c.name \notin undeclared)])
          ELSE st1, "defaults")

(* set_defaults: check_obj[col] = check_obj[col].fillna(default), in place *)
FillColumn(S, c) ==
  LET ks == Filter([ i \in 1..Len(S.cols) |-> S.cols[i] ], LAMBDA cs : ~cs.regex /\ cs.key = c.name)
  IN IF ks = <<>> \/ IsNull(ks[1].default) \/ ~HasNull(c.cells) THEN c
     ELSE [c EXCEPT !.cells = [ r \in 1..Len(c.cells) |-> IF IsNull(c.cells[r]) THEN ks[1].default ELSE c.cells[r] ]]
SetDefaults(st) ==
  Goto(Write(st, [st.obj EXCEPT !.cols = [ j \in 1..Len(@) |-> FillColumn(st.S, @[j]) ]]), "coerce")

(* coerce_dtype: every column whose schema (or the container) asks for coercion,  *)
(* then the index; every failure is collected, successes are written in place      *)
ColCoerceTarget(S, c) ==
  LET ks == Filter([ i \in 1..Len(S.cols) |-> S.cols[i] ],
                   LAMBDA cs : Matches(cs, c.name) /\ (cs.coerce \/ S.coerce) /\ cs.dtype # "none")
  IN IF ks = <<>> THEN "none" ELSE ks[1].dtype
CoerceColumn(S, c) ==
  LET T == ColCoerceTarget(S, c)
      r == CoerceCells(T, c.cells)
  IN IF T = "none" \/ ~r.ok THEN c ELSE [c EXCEPT !.cells = r.cells, !.pd = Phys(T)]
ColCoerceErrors(S, D) ==
  (* in schema order, then frame order of the matched labels *)
  Flatten([ i \in 1..Len(S.cols) |->
     IF ~(S.cols[i].coerce \/ S.coerce) \/ S.cols[i].dtype = "none" THEN <<>>
     ELSE LET tg == Targets(S.cols[i], D)
          IN Flatten([ t \in 1..Len(tg) |->
               LET p == PositionsOf(D, tg[t])[1]
                   r == CoerceCells(S.cols[i].dtype, D.cols[p].cells)
               IN IF r.ok THEN <<>>
                  ELSE WithCol(Labelled(<< ErrCells("DATATYPE_COERCION", -1, r.bad, D.cols[p].cells) >>, D.idx),
                               tg[t], "Column") ]) ])
IndexCoerces(S) == HasIndex(S) /\ (S.index.coerce \/ S.coerce) /\ S.index.dtype # "none"
CoerceIndexOf(S, D) ==
  LET r == CoerceCells(S.index.dtype, D.idx)
  IN IF IndexCoerces(S) /\ r.ok THEN [D EXCEPT !.idx = r.cells, !.idxpd = Phys(S.index.dtype)] ELSE D
IndexCoerceErrors(S, D) ==
  LET r == CoerceCells(S.index.dtype, D.idx)
  IN IF IndexCoerces(S) /\ ~r.ok
     THEN WithCol(Labelled(<< ErrCells("DATATYPE_COERCION", -1, r.bad, D.idx) >>, D.idx), NA, "Index")
     ELSE <<>>
AnyCoerce(S) == S.coerce \/ (HasIndex(S) /\ S.index.coerce) \/ \E i \in 1..Len(S.cols) : S.cols[i].coerce
CoerceDtype(st) ==
  Goto(IF ~AnyCoerce(st.S) THEN st
       ELSE LET D  == st.obj
                es == ColCoerceErrors(st.S, D) \o IndexCoerceErrors(st.S, D)
                D1 == [D EXCEPT !.cols = [ j \in 1..Len(@) |-> CoerceColumn(st.S, @[j]) ]]
            IN Collect(Write(st, CoerceIndexOf(st.S, D1)), es), "labels")

---------------------------------------------------------------------------
(* core checks on the parsed object *)
LabelsUnique(st) == Goto(Collect(st, LabelsUniqueErrors(st.S, st.obj)), "presence")
Presence(st) ==
  Goto(Collect(st, IF st.S.addmiss THEN <<>> ELSE PresenceErrors(st.S, st.obj)), "joint")
JointUnique(st) == Goto(Collect(st, JointUniqueErrors(st.S, st.obj)), "component")

(* run_schema_component_checks: save coerce, override with False, validate,       *)
(* restore in `finally` -- two steps per component so that the override is a       *)
(* visible state                                                                   *)
ComponentBegin(st) == Goto([st EXCEPT !.sch[st.k] = FALSE], "component_body")
(* ColumnBackend.validate fills the column default itself, on the container's working frame (inplace=True): *)
(* this is where a REGEX column gets its default - the container stage only knows literal column names      *)
FillByComponent(cs, D) ==
  IF IsNull(cs.default) THEN D
  ELSE [D EXCEPT !.cols = [ j \in 1..Len(@) |->
          IF Matches(cs, @[j].name) /\ HasNull(@[j].cells)
          THEN [@[j] EXCEPT !.cells = [ r \in 1..Len(@) |-> IF IsNull(@[r]) THEN cs.default ELSE @[r] ]]
          ELSE @[j] ]]
ComponentBody(st) ==
  LET cs == st.S.cols[st.k]
      st1 == IF ComponentActive(cs, st.obj) /\ FillByComponent(cs, st.obj) # st.obj
             THEN Write(st, FillByComponent(cs, st.obj)) ELSE st
      es == IF ComponentActive(cs, st1.obj)
            THEN ColumnComponentErrorsWith(cs, st1.obj, "DuplicateNullsNotReported" \notin st1.dev) ELSE <<>>
  IN Goto([Collect(st1, es) EXCEPT !.sch[st.k] = cs.coerce, !.k = st.k + 1], "component")
IndexComponent(st) ==
  Goto(Collect(st, IF "IndexFailureCasesByPosition" \in st.dev
                   THEN IndexErrorsByPosition(st.S, st.obj) ELSE IndexErrorsIdeal(st.S, st.obj)), "finish")

Finish(st) ==
  [Goto(st, "done") EXCEPT
     !.out = IF st.errs = <<>> THEN [kind |-> "ok", returned |-> st.obj]
             ELSE [kind |-> IF st.lazy THEN "SchemaErrors" ELSE "SchemaError", errors |-> st.errs]]

Step(st) ==
  CASE st.pc = "preprocess"     -> Preprocess(st)
    [] st.pc = "add_missing"    -> AddMissing(st)
    [] st.pc = "strict"         -> StrictFilter(st)
    [] st.pc = "defaults"       -> SetDefaults(st)
    [] st.pc = "coerce"         -> CoerceDtype(st)
    [] st.pc = "labels"         -> LabelsUnique(st)
    [] st.pc = "presence"       -> Presence(st)
    [] st.pc = "joint"          -> JointUnique(st)
    [] st.pc = "component"      -> IF st.k <= Len(st.S.cols) THEN ComponentBegin(st) ELSE IndexComponent(st)
    [] st.pc = "component_body" -> ComponentBody(st)
    [] st.pc = "finish"         -> Finish(st)
RECURSIVE Run(_)
Run(st) == IF st.pc = "done" THEN st ELSE Run(Step(st))

---------------------------------------------------------------------------
VARIABLE st
At(p) == st.pc = p
APreprocess     == At("preprocess")     /\ st' = Preprocess(st)
AAddMissing     == At("add_missing")    /\ st' = AddMissing(st)
AStrictFilter   == At("strict")         /\ st' = StrictFilter(st)
ASetDefaults    == At("defaults")       /\ st' = SetDefaults(st)
ACoerceDtype    == At("coerce")         /\ st' = CoerceDtype(st)
ALabelsUnique   == At("labels")         /\ st' = LabelsUnique(st)
APresence       == At("presence")       /\ st' = Presence(st)
AJointUnique    == At("joint")          /\ st' = JointUnique(st)
AComponentBegin == At("component") /\ st.k <= Len(st.S.cols) /\ st' = ComponentBegin(st)
AComponentBody  == At("component_body") /\ st' = ComponentBody(st)
AIndexComponent == At("component") /\ st.k > Len(st.S.cols) /\ st' = IndexComponent(st)
AFinish         == At("finish")         /\ st' = Finish(st)
Next == APreprocess \/ AAddMissing \/ AStrictFilter \/ ASetDefaults \/ ACoerceDtype \/ ALabelsUnique
          \/ APresence \/ AJointUnique \/ AComponentBegin \/ AComponentBody \/ AIndexComponent \/ AFinish

---------------------------------------------------------------------------
Done == st.pc = "done"
AsIs == {"IndexFailureCasesByPosition", "DuplicateNullsNotReported"}
NoParsing(S) == /\ ~AnyCoerce(S) /\ ~S.addmiss /\ S.strict # "filter" /\ ~S.drop
                /\ \A i \in 1..Len(S.cols) : IsNull(S.cols[i].default)
Strip(S) == [S EXCEPT !.coerce = FALSE, !.addmiss = FALSE, !.drop = FALSE,
                      !.strict = IF @ = "filter" THEN "yes" ELSE @,
                      !.index = IF HasIndex(S) THEN [@ EXCEPT !.coerce = FALSE] ELSE @,
                      !.cols = [ i \in 1..Len(@) |-> [@[i] EXCEPT !.coerce = FALSE, !.default = NA] ]]

VerdictEqualsSemantics == Done /\ NoParsing(st.S) => ((st.out.kind = "ok") <=> FrameSat(st.S, st.inp0))
IdentityOnSuccess == Done /\ st.out.kind = "ok" /\ NoParsing(st.S) => st.out.returned = st.inp0
(* the machine computes what the functional form computes *)
ReportIsFunctional ==
  Done /\ st.out.kind # "ok" /\ NoParsing(st.S) /\ st.dev = AsIs =>
     IF st.lazy THEN st.out.errors = FrameErrorsAsIs(st.S, st.inp0)
     ELSE st.out.errors = <<FrameErrorsAsIs(st.S, st.inp0)[1]>>
IdealAndAsIsAgreeOnVerdict ==
  (FrameErrors(st.S, st.inp0) = <<>>) <=> (FrameErrorsAsIs(st.S, st.inp0) = <<>>)
LazyEagerAgree ==
  Done =>
     LET other == Run(Start(st.S, st.inp0, ~st.lazy, st.inplace, st.dev))
         lz == IF st.lazy THEN st ELSE other
         eg == IF st.lazy THEN other ELSE st
     IN /\ (lz.out.kind = "ok") <=> (eg.out.kind = "ok")
        /\ eg.out.kind # "ok" => \E e \in 1..Len(lz.out.errors) : lz.out.errors[e] = eg.out.errors[1]
ParsePostcondition == Done /\ st.out.kind = "ok" => FrameSat(Strip(st.S), st.out.returned)
ParseFixpoint ==
  Done /\ st.out.kind = "ok" =>
     LET again == Run(Start(st.S, st.out.returned, st.lazy, FALSE, st.dev))
     IN again.out.kind = "ok" /\ again.out.returned = st.out.returned
NoCallerMutation == ~st.inplace => st.inp = st.inp0
SchemaRestored == Done => st.sch = SchemaAttrs(st.S)
=============================================================================
