----------------------------- MODULE MC_Checks -----------------------------
(***************************************************************************)
(* The check back end as a state machine (C19): one action per stage of      *)
(* PandasCheckBackend.__call__ and PandasSchemaBackend.run_check              *)
(*    Preprocess (dropna under ignore_na | groupby -> dict of groups)          *)
(*    Apply      (map over elements | vectorised; the arguments the user        *)
(*                function receives are recorded)                               *)
(*    Postprocess (verdict, failure cases, truncation to n_failure_cases)       *)
(*    Report     (raise_warning downgrade)                                      *)
(* over every option combination, and the metamorphic relations between option  *)
(* variants as invariants.                                                      *)
(***************************************************************************)
EXTENDS Field, Json

CONSTANTS MaxLen, SliceName

VARIABLES ck, data, pc, shown, bad, res
vars == <<ck, data, pc, shown, bad, res>>

Vals == {fv(2), fv(-2), fv(4), NA}
Predicates == {"pos", "even", "le1", "nonneg", "true", "false"}
Customs == { [Chk("custom", <<p>>) EXCEPT !.ew = e, !.ina = i, !.nfc = n, !.warn = w] :
               p \in Predicates, e \in BOOLEAN, i \in BOOLEAN, n \in {0, 1, 2}, w \in BOOLEAN }
(* every built-in under its canonical name; the harness constructs it through the alias when alias = TRUE *)
Builtins == { [c EXCEPT !.ina = i, !.nfc = n] :
                c \in { Chk("eq", <<iv(1)>>), Chk("ne", <<iv(1)>>), Chk("gt", <<iv(0)>>), Chk("ge", <<iv(1)>>),
                        Chk("lt", <<iv(1)>>), Chk("le", <<iv(1)>>), Chk("in_range", <<iv(-1), iv(1), bv(1), bv(1)>>),
                        Chk("in_range", <<iv(-1), iv(1), bv(0), bv(0)>>), Chk("isin", <<iv(1), iv(2)>>),
                        Chk("notin", <<iv(1)>>) },
                i \in BOOLEAN, n \in {0, 1} }

Idx(n) == { [i \in 1..n |-> iv(i - 1)], [i \in 1..n |-> iv(10 * (n + 1 - i))] }
MaskedVals == {iv(1), iv(-1), iv(2), NA}      \* pandas nullable extension dtype Int64

InitField ==
  \E n \in 0..MaxLen : \E pd \in {"float64", "Int64"} :
  \E cs \in [1..n -> (IF pd = "float64" THEN Vals ELSE MaskedVals)] : \E ix \in Idx(n) :
  \E c \in (IF SliceName = "custom" THEN Customs ELSE Builtins) : \E al \in (IF SliceName = "custom" THEN {FALSE} ELSE BOOLEAN) :
     /\ (pd = "Int64" /\ c.k # "custom") => c.ina      \* a masked comparison with NA has no truth value
     /\ ck = [c |-> c, alias |-> al]
     /\ data = [name |-> NA, pd |-> pd, cells |-> cs, idx |-> ix, idxpd |-> "int64", idxname |-> NA]
     /\ pc = "preprocess" /\ shown = {} /\ bad = <<>> /\ res = [none |-> TRUE]

---------------------------------------------------------------------------
(* groupby: the function is handed exactly the groups of the grouping column, restricted by `groups`.     *)
(* PINNED: rows whose key is null belong to no group; a categorical grouping column contributes every      *)
(* category, also those without rows (pandas observed=False); a requested group that does not exist is an   *)
(* error of the check (reported as a failed check).                                                         *)
GA == sv(2)   GB == sv(3)   GC == sv(4)
GroupKeys(d) == IF d.gkind = "category" THEN {GA, GB, GC}
                ELSE { d.g[i] : i \in { j \in 1..Len(d.g) : ~IsNull(d.g[j]) } }
GroupOf(d, key) == LET rows == SetToSortedSeq({ i \in 1..Len(d.g) : d.g[i] = key })
                   IN [ j \in 1..Len(rows) |-> d.v[rows[j]] ]
InitGroupby ==
  \E n \in 0..MaxLen : \E vs \in [1..n -> {iv(1), iv(-1)}] : \E gs \in [1..n -> {GA, GB, NA}] :
  \E gk \in {"object", "category"} : \E grp \in { <<>>, <<GA>>, <<GA, GC>>, <<GC>>, <<GB, GA>> } :
     /\ ck = [c |-> [Chk("custom", <<"all_groups_pos">>) EXCEPT !.ina = TRUE], alias |-> FALSE, groups |-> grp]
     /\ data = [v |-> vs, g |-> gs, gkind |-> gk]
     /\ pc = "preprocess" /\ shown = {} /\ bad = <<>> /\ res = [none |-> TRUE]
GPreprocess ==
  /\ pc = "preprocess"
  /\ shown' = IF ck.groups = <<>> THEN GroupKeys(data) ELSE Range(ck.groups)
  /\ pc' = "apply" /\ UNCHANGED <<ck, data, bad, res>>
GApply ==
  /\ pc = "apply"
  /\ res' = IF ~(shown \subseteq GroupKeys(data))
            THEN [error |-> TRUE, passed |-> FALSE, groups |-> <<>>]
            ELSE LET keys == SetToSortedSeq({ k[2] : k \in shown })
                 IN [error |-> FALSE,
                     passed |-> \A k \in shown : \A j \in 1..Len(GroupOf(data, k)) : Halves(GroupOf(data, k)[j]) > 0,
                     groups |-> [ j \in 1..Len(keys) |-> << sv(keys[j]), GroupOf(data, sv(keys[j])) >> ]]
  /\ pc' = "done" /\ UNCHANGED <<ck, data, shown, bad>>
GNext == GPreprocess \/ GApply

Preprocess ==
  /\ pc = "preprocess"
  /\ shown' = Shown(ck.c, data.cells)
  /\ pc' = "apply" /\ UNCHANGED <<ck, data, bad, res>>
Apply ==
  /\ pc = "apply"
  /\ bad' = SetToSortedSeq({ i \in shown : ~CellOK(ck.c, data.cells[i]) })
  /\ pc' = "postprocess" /\ UNCHANGED <<ck, data, shown, res>>
Postprocess ==
  /\ pc = "postprocess"
  /\ res' = [passed |-> bad = <<>>,
             cases |-> LET cut == IF ck.c.nfc > 0 /\ Len(bad) > ck.c.nfc THEN SubSeq(bad, 1, ck.c.nfc) ELSE bad
                       IN [ j \in 1..Len(cut) |-> << data.idx[cut[j]], data.cells[cut[j]] >> ],
             args |-> [ j \in 1..Len(SetToSortedSeq(shown)) |-> data.cells[SetToSortedSeq(shown)[j]] ]]
  /\ pc' = "report" /\ UNCHANGED <<ck, data, shown, bad>>
Report ==
  /\ pc = "report"
  /\ pc' = "done"
  /\ UNCHANGED <<ck, data, shown, bad, res>>
Next == IF SliceName = "groupby" THEN GNext ELSE Preprocess \/ Apply \/ Postprocess \/ Report
Spec == (IF SliceName = "groupby" THEN InitGroupby ELSE InitField) /\ [][Next]_vars

Done == pc = "done" /\ SliceName # "groupby"
GDone == pc = "done" /\ SliceName = "groupby"
(* groupby hands the function exactly the groups of the grouping column (restricted by groups) *)
GroupsAreExact ==
  GDone /\ ~res.error =>
     /\ { res.groups[j][1] : j \in 1..Len(res.groups) } = (IF ck.groups = <<>> THEN GroupKeys(data) ELSE Range(ck.groups))
     /\ \A j \in 1..Len(res.groups) : res.groups[j][2] = GroupOf(data, res.groups[j][1])
(* the verdict of schema.validate: raise_warning never raises and warns exactly when the check would fail *)
Validates == res.passed \/ ck.c.warn
Warns == ck.c.warn /\ ~res.passed

(* relations between option variants, evaluated on the functional form of the back end *)
R(c) == RunCheckOnField(c, data.cells)
MachineIsFunction == Done => /\ res.passed = R(ck.c).passed
                             /\ Len(res.cases) = Len(R(ck.c).pos)
ElementwiseIsMap == Done => R([ck.c EXCEPT !.ew = TRUE]) = R([ck.c EXCEPT !.ew = FALSE])
IgnoreNaNeverShowsNulls == Done /\ ck.c.ina => \A j \in 1..Len(res.args) : ~IsNull(res.args[j])
IgnoreNaNeverFailsOnNulls == Done /\ ck.c.ina => \A j \in 1..Len(res.cases) : ~IsNull(res.cases[j][2])
NotIgnoringShowsEverything == Done /\ ~ck.c.ina => Len(res.args) = Len(data.cells)
TruncationKeepsVerdict == Done => /\ R([ck.c EXCEPT !.nfc = 0]).passed = res.passed
                                  /\ TruncationIsPrefix(ck.c, data.cells)
WarningNeverRaises == Done /\ ck.c.warn => Validates

ASSUME PrintT(ToJson([kind |-> "header", strtable |-> StrTable, retable |-> ReTable]))
EmitG == GDone =>
   PrintT(ToJson([kind |-> "check_groupby", slice |-> SliceName, groups |-> ck.groups, data |-> data,
                  expect |-> res]))
Emit == Done =>
   PrintT(ToJson([kind |-> "check", slice |-> SliceName, check |-> ck.c, alias |-> ck.alias, data |-> data,
                  expect |-> [passed |-> res.passed, cases |-> res.cases, args |-> res.args,
                              validates |-> Validates, warns |-> Warns]]))
=============================================================================
