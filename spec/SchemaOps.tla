----------------------------- MODULE SchemaOps -----------------------------
(***************************************************************************)
(* Schema transformation algebra (C15): add / remove / select / rename /     *)
(* update columns, set_index / reset_index, as actions on the abstract        *)
(* schema, each paired with the dataframe operation it mirrors.  Invalid       *)
(* requests are error actions that leave the schema unchanged.                 *)
(*                                                                           *)
(* A column carries EVERY attribute a pandera Column has:                      *)
(*   [key, dtype, nullable, unique, report, coerce, required, regex, default,   *)
(*    title, desc, meta, drop, checks]                                          *)
(* an index level the attributes an Index has: the same minus required/regex.   *)
(* Deviations of the shipped code are named flags in `dev`.                     *)
(***************************************************************************)
EXTENDS Values, Checks

Keys(S) == [ i \in 1..Len(S.cols) |-> S.cols[i].key ]
HasKey(S, k) == \E i \in 1..Len(S.cols) : S.cols[i].key = k
ColOf(S, k) == S.cols[CHOOSE i \in 1..Len(S.cols) : S.cols[i].key = k]
FilterSeq(s, Test(_)) == LET keep == SetToSortedSeq({ i \in 1..Len(s) : Test(s[i]) })
                         IN [ j \in 1..Len(keep) |-> s[keep[j]] ]
LevelNames(S) == [ i \in 1..Len(S.index) |-> S.index[i].key ]

Err(kind) == [error |-> kind]
IsErr(r) == "error" \in DOMAIN r

(* attributes a Column and an Index level share *)
ToLevel(c, dev) ==
  IF "SetResetIndexLosesAttributes" \in dev
  THEN [key |-> c.key, dtype |-> c.dtype, nullable |-> c.nullable, unique |-> c.unique, coerce |-> c.coerce,
        checks |-> c.checks, report |-> "all", default |-> NA, title |-> FALSE, desc |-> FALSE,
        meta |-> FALSE, drop |-> FALSE]
  ELSE [key |-> c.key, dtype |-> c.dtype, nullable |-> c.nullable, unique |-> c.unique, coerce |-> c.coerce,
        checks |-> c.checks, report |-> c.report, default |-> c.default, title |-> c.title, desc |-> c.desc,
        meta |-> c.meta, drop |-> c.drop]
ToColumn(l, dev) ==
  IF "SetResetIndexLosesAttributes" \in dev
  THEN [key |-> l.key, dtype |-> l.dtype, nullable |-> l.nullable, unique |-> l.unique, coerce |-> l.coerce,
        checks |-> l.checks, report |-> "all", default |-> NA, title |-> FALSE, desc |-> FALSE,
        meta |-> FALSE, drop |-> FALSE, required |-> TRUE, regex |-> FALSE]
  ELSE [key |-> l.key, dtype |-> l.dtype, nullable |-> l.nullable, unique |-> l.unique, coerce |-> l.coerce,
        checks |-> l.checks, report |-> l.report, default |-> l.default, title |-> l.title, desc |-> l.desc,
        meta |-> l.meta, drop |-> l.drop, required |-> TRUE, regex |-> FALSE]

---------------------------------------------------------------------------
(* the operations: schema x arguments x dev -> schema | Err *)
AddColumns(S, new, dev) ==
  LET replaced == [ i \in 1..Len(S.cols) |->
                      IF \E j \in 1..Len(new) : new[j].key = S.cols[i].key
                      THEN new[CHOOSE j \in 1..Len(new) : new[j].key = S.cols[i].key] ELSE S.cols[i] ]
      fresh == FilterSeq(new, LAMBDA c : ~HasKey(S, c.key))
  IN [S EXCEPT !.cols = replaced \o fresh]

RemoveColumns(S, ks, dev) ==
  IF \E j \in 1..Len(ks) : ~HasKey(S, ks[j]) THEN Err("SchemaInitError")
  ELSE [S EXCEPT !.cols = FilterSeq(@, LAMBDA c : c.key \notin Range(ks))]

SelectColumns(S, ks, dev) ==
  IF \E j \in 1..Len(ks) : ~HasKey(S, ks[j]) THEN Err("SchemaInitError")
  ELSE [S EXCEPT !.cols = [ j \in 1..Len(ks) |-> ColOf(S, ks[j]) ]]

(* rn: sequence of <<old, new>> *)
RenameColumns(S, rn, dev) ==
  LET eff == FilterSeq(rn, LAMBDA p : p[1] # p[2])
  IN IF \E j \in 1..Len(rn) : ~HasKey(S, rn[j][1]) THEN Err("SchemaInitError")
     ELSE IF \E j \in 1..Len(eff) : HasKey(S, eff[j][2]) THEN Err("SchemaInitError")
     ELSE [S EXCEPT !.cols = [ i \in 1..Len(S.cols) |->
             LET c == S.cols[i] IN
             IF \E j \in 1..Len(eff) : eff[j][1] = c.key
             THEN [c EXCEPT !.key = eff[CHOOSE j \in 1..Len(eff) : eff[j][1] = c.key][2]]
             ELSE c ]]

(* upd: <<key, attribute, value>>;  update_column rebuilds the column from Column.properties, which has   *)
(* no drop_invalid_rows (deviation UpdateColumnsLosesDropInvalidRows); update_columns rebuilds EVERY column *)
SetAttr(c, attr, v) ==
  CASE attr = "nullable" -> [c EXCEPT !.nullable = v]
    [] attr = "unique"   -> [c EXCEPT !.unique = v]
    [] attr = "coerce"   -> [c EXCEPT !.coerce = v]
    [] attr = "required" -> [c EXCEPT !.required = v]
Rebuilt(c, dev) == IF "UpdateColumnsLosesDropInvalidRows" \in dev THEN [c EXCEPT !.drop = FALSE] ELSE c
UpdateColumn(S, upd, dev) ==
  IF ~HasKey(S, upd[1]) THEN Err("ValueError")
  ELSE [S EXCEPT !.cols = [ i \in 1..Len(@) |->
          IF @[i].key = upd[1] THEN Rebuilt(SetAttr(@[i], upd[2], upd[3]), dev) ELSE @[i] ]]
UpdateColumns(S, upd, dev) ==
  IF ~HasKey(S, upd[1]) THEN Err("SchemaInitError")
  ELSE [S EXCEPT !.cols = [ i \in 1..Len(@) |->
          IF @[i].key = upd[1] THEN Rebuilt(SetAttr(@[i], upd[2], upd[3]), dev) ELSE Rebuilt(@[i], dev) ]]

SetIndex(S, ks, drop, append, dev) ==
  IF \E j \in 1..Len(ks) : ~HasKey(S, ks[j]) THEN Err("SchemaInitError")
  ELSE LET levels == (IF append THEN S.index ELSE <<>>) \o [ j \in 1..Len(ks) |-> ToLevel(ColOf(S, ks[j]), dev) ]
           S1 == [S EXCEPT !.index = levels]
       IN IF drop THEN [S1 EXCEPT !.cols = FilterSeq(@, LAMBDA c : c.key \notin Range(ks))] ELSE S1

(* lv = <<>> means "all levels" (level=None) *)
ResetIndex(S, lv, drop, dev) ==
  IF S.index = <<>> THEN Err("SchemaInitError")
  ELSE LET names == IF lv = <<>> THEN LevelNames(S) ELSE lv
       IN IF \E j \in 1..Len(names) : names[j] \notin Range(LevelNames(S)) THEN Err("SchemaInitError")
          (* as shipped, the levels of a MultiIndex are kept in a dict keyed by name: when one key was set twice    *)
          (* (set_index(k, append=True, drop=False) twice) removing the levels dies with KeyError                    *)
          ELSE IF "ResetIndexDuplicateLevelNamesKeyError" \in dev /\ Len(S.index) > 1
                  /\ \E a, b \in 1..Len(S.index) : a # b /\ S.index[a].key = S.index[b].key /\ S.index[a].key \in Range(names)
               THEN Err("Leak:KeyError")
          ELSE LET moved == FilterSeq(S.index, LAMBDA l : l.key \in Range(names))
                   rest  == FilterSeq(S.index, LAMBDA l : l.key \notin Range(names))
                   S1 == [S EXCEPT !.index = rest]
                   (* as shipped, a level taken out of a MultiIndex also loses its coerce flag *)
                   Conv(l) == IF "SetResetIndexLosesAttributes" \in dev /\ Len(S.index) > 1
                              THEN [ToColumn(l, dev) EXCEPT !.coerce = FALSE] ELSE ToColumn(l, dev)
               IN IF drop THEN S1
                  ELSE AddColumns(S1, [ j \in 1..Len(moved) |-> Conv(moved[j]) ], dev)

Apply(S, op, dev) ==
  CASE op.op = "add_columns"    -> AddColumns(S, op.cols, dev)
    [] op.op = "remove_columns" -> RemoveColumns(S, op.keys, dev)
    [] op.op = "select_columns" -> SelectColumns(S, op.keys, dev)
    [] op.op = "rename_columns" -> RenameColumns(S, op.map, dev)
    [] op.op = "update_column"  -> UpdateColumn(S, op.upd, dev)
    [] op.op = "update_columns" -> UpdateColumns(S, op.upd, dev)
    [] op.op = "set_index"      -> SetIndex(S, op.keys, op.drop, op.append, dev)
    [] op.op = "reset_index"    -> ResetIndex(S, op.keys, op.drop, dev)

---------------------------------------------------------------------------
(* equality on what both a Column and an Index level can hold, order-insensitive for columns *)
Shared(c) == [key |-> c.key, dtype |-> c.dtype, nullable |-> c.nullable, unique |-> c.unique, coerce |-> c.coerce,
              checks |-> c.checks, report |-> c.report, default |-> c.default, title |-> c.title, desc |-> c.desc,
              meta |-> c.meta, drop |-> c.drop]
SameColumnsAsSets(S, T) == { Shared(S.cols[i]) : i \in 1..Len(S.cols) } = { Shared(T.cols[i]) : i \in 1..Len(T.cols) }
=============================================================================
