------------------------------ MODULE Checks ------------------------------
(***************************************************************************)
(* Built-in checks and the check back end (preprocess / apply / postprocess *)
(* / failure-case extraction), structured the way the code is structured   *)
(* (pandera/backends/pandas/checks.py, builtin_checks.py, base.run_check).  *)
(*                                                                         *)
(* A check is a record                                                     *)
(*   [k    : built-in name or "custom",                                    *)
(*    a    : tuple of argument values,                                     *)
(*    ina  : ignore_na,                                                    *)
(*    nfc  : n_failure_cases (0 = None),                                   *)
(*    warn : raise_warning,                                                *)
(*    ew   : element_wise   (custom checks only)]                          *)
(***************************************************************************)
EXTENDS Values

Chk(k, a) == [k |-> k, a |-> a, ina |-> TRUE, nfc |-> 0, warn |-> FALSE, ew |-> FALSE]

NumericKinds == {"eq", "ne", "gt", "ge", "lt", "le", "in_range", "isin", "notin"}
StringKinds  == {"eq", "ne", "isin", "notin", "str_matches", "str_contains",
                 "str_startswith", "str_endswith", "str_length"}
BoolKinds    == {"eq", "ne", "isin", "notin"}
WholeKinds   == {"unique_values_eq"}         \* the function returns one boolean

(* named predicate family for custom checks: defined here semantically,     *)
(* mapped to a fixed table of Python lambdas by the harness                 *)
CustomHolds(name, v) ==
  CASE name = "pos"     -> IsNumeric(v) /\ Halves(v) > 0
    [] name = "even"    -> IsNumeric(v) /\ (Halves(v) % 4 = 0)
    [] name = "le1"     -> IsNumeric(v) /\ Halves(v) <= 2
    [] name = "nonneg"  -> IsNumeric(v) /\ Halves(v) >= 0
    [] name = "true"    -> TRUE
    [] name = "false"   -> FALSE
(* what the custom predicate answers when it is shown a null *)
CustomHoldsNull(name) == name \in {"true"}

(* does the (non-null, kind-compatible) value v satisfy check c ? *)
Holds(c, v) ==
  CASE c.k = "eq"    -> ValEq(v, c.a[1])
    [] c.k = "ne"    -> ~ValEq(v, c.a[1])
    [] c.k = "gt"    -> NumLT(c.a[1], v)
    [] c.k = "ge"    -> NumLE(c.a[1], v)
    [] c.k = "lt"    -> NumLT(v, c.a[1])
    [] c.k = "le"    -> NumLE(v, c.a[1])
    [] c.k = "in_range" ->
         /\ IF c.a[3][2] = 1 THEN NumLE(c.a[1], v) ELSE NumLT(c.a[1], v)
         /\ IF c.a[4][2] = 1 THEN NumLE(v, c.a[2]) ELSE NumLT(v, c.a[2])
    [] c.k = "isin"  -> \E j \in 1..Len(c.a) : ValEq(v, c.a[j])
    [] c.k = "notin" -> ~\E j \in 1..Len(c.a) : ValEq(v, c.a[j])
    [] c.k = "str_matches"    -> ReMatch(Re(c.a[1]), Str(v))
    [] c.k = "str_contains"   -> ReSearch(Re(c.a[1]), Str(v))
    [] c.k = "str_startswith" -> IsPrefix(Str(c.a[1]), Str(v))
    [] c.k = "str_endswith"   -> IsSuffix(Str(c.a[1]), Str(v))
    [] c.k = "str_length" ->
         /\ IsNull(c.a[1]) \/ c.a[1][2] <= Len(Str(v))
         /\ IsNull(c.a[2]) \/ Len(Str(v)) <= c.a[2][2]
    [] c.k = "custom" -> CustomHolds(c.a[1], v)

(* what a check answers for a null that it is shown (ignore_na = FALSE).    *)
(* PINNED: comparisons with NaN/None are false, so only the negated checks  *)
(* accept a null.                                                           *)
HoldsNull(c) ==
  CASE c.k \in {"ne", "notin"} -> TRUE
    [] c.k = "custom" -> CustomHoldsNull(c.a[1])
    [] OTHER -> FALSE

CellOK(c, v) == IF IsNull(v) THEN HoldsNull(c) ELSE Holds(c, v)

---------------------------------------------------------------------------
(* Declarative meaning of a check on a field (sequence of cells).           *)
CheckSat(c, cells) ==
  IF c.k = "unique_values_eq"
  THEN LET seen == { cells[i] : i \in { j \in 1..Len(cells) : ~IsNull(cells[j]) } }
           want == Range(c.a)
       IN /\ \A v \in seen : \E w \in want : ValEq(v, w)
          /\ \A w \in want : \E v \in seen : ValEq(v, w)
  ELSE \A i \in 1..Len(cells) :
          IF IsNull(cells[i]) THEN c.ina \/ HoldsNull(c) ELSE Holds(c, cells[i])

---------------------------------------------------------------------------
(* The back end, stage by stage.                                            *)
(* Preprocess: positions the function is shown (dropna under ignore_na).    *)
Shown(c, cells) == { i \in 1..Len(cells) : ~(c.ina /\ IsNull(cells[i])) }

(* Apply + postprocess: failing positions in ascending order, truncated.    *)
FailingPositions(c, cells) ==
  LET bad == { i \in Shown(c, cells) : ~CellOK(c, cells[i]) }
      sq  == SetToSortedSeq(bad)
  IN IF c.nfc > 0 /\ Len(sq) > c.nfc THEN SubSeq(sq, 1, c.nfc) ELSE sq

(* The result of running one check on one field:                            *)
(*   passed : verdict (never changed by nfc)                               *)
(*   scalar : the function returned one boolean (no per-cell cases)        *)
(*   pos    : failing positions reported                                   *)
(*   args   : positions of the cells the function received (C19)           *)
RunCheckOnField(c, cells) ==
  IF c.k = "unique_values_eq"
  THEN [passed |-> CheckSat(c, cells), scalar |-> TRUE, pos |-> <<>>,
        args |-> Shown(c, cells)]
  ELSE LET allbad == { i \in Shown(c, cells) : ~CellOK(c, cells[i]) }
       IN [passed |-> allbad = {}, scalar |-> FALSE,
           pos |-> FailingPositions(c, cells), args |-> Shown(c, cells)]

(* A check function that cannot be evaluated on the data raises; the back end    *)
(* reports that as a failed check (reason CHECK_ERROR).  PINNED:                 *)
(*  - an ordering comparison shown a string raises TypeError                     *)
(*  - a str_* check on a non-object column raises AttributeError (.str accessor) *)
OrderingKinds == {"gt", "ge", "lt", "le", "in_range"}
StrOnlyKinds  == {"str_matches", "str_contains", "str_startswith", "str_endswith", "str_length"}
CheckRaises(c, pd, cells) ==
  \/ c.k \in OrderingKinds /\ \E i \in Shown(c, cells) : IsStr(cells[i])
  \/ c.k \in StrOnlyKinds /\ pd \in {"int64", "float64", "bool", "Int64"}

(* Metamorphic facts about the back end, checked by TLC in MC_Checks:       *)
(*  - the staged computation equals the declarative meaning                *)
(*  - n_failure_cases never changes the verdict and reports a prefix        *)
BackendMeetsMeaning(c, cells) == RunCheckOnField(c, cells).passed = CheckSat(c, cells)
TruncationIsPrefix(c, cells) ==
  LET full == RunCheckOnField([c EXCEPT !.nfc = 0], cells)
      cut  == RunCheckOnField(c, cells)
  IN /\ cut.passed = full.passed
     /\ Len(cut.pos) <= Len(full.pos)
     /\ \A j \in 1..Len(cut.pos) : cut.pos[j] = full.pos[j]
     /\ (c.nfc > 0 => Len(cut.pos) = IF Len(full.pos) < c.nfc THEN Len(full.pos) ELSE c.nfc)
IgnoreNaHidesNulls(c, cells) ==
  c.ina => \A i \in RunCheckOnField(c, cells).args : ~IsNull(cells[i])
=============================================================================
