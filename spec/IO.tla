--------------------------------- MODULE IO ---------------------------------
(***************************************************************************)
(* C12 - schema serialisation round-trips (YAML, JSON, generated script).   *)
(*                                                                         *)
(* The code serialises in three stages, modelled one action each:            *)
(*   schema --Stats--> statistics form --Emit--> document --Read--> schema    *)
(* (pandera/schema_statistics/pandas.py:get_dataframe_schema_statistics /     *)
(*  parse_checks; pandera/io/pandas_io.py:serialize_schema, to_script,        *)
(*  deserialize_schema).  The statistics form holds the checks of a component *)
(* as a MAP from check name to statistics+options (a Python dict: a second    *)
(* check of the same name overwrites the value and keeps the position of the  *)
(* first), which is where the format cannot be injective; everything else is  *)
(* one slot per attribute.  A document is the tree of slots that is written;  *)
(* the script is the same tree rendered as a constructor call.                *)
(*                                                                         *)
(* TLC explores every schema obtained from a base schema by one or two        *)
(* modifications of a serialisable attribute (pairwise coverage), in the      *)
(* three formats, and proves on this model                                    *)
(*   RoundTrip      Read(Emit(Stats(S))) = S when no component repeats a       *)
(*                  check name, and = Collapse(S) otherwise                    *)
(*   TextFixpoint   writing the re-read schema reproduces the document         *)
(*   WriterPure     writing does not change the schema                         *)
(* Every behaviour is replayed through the real to_yaml/from_yaml,            *)
(* to_json/from_json, to_script+exec.                                         *)
(***************************************************************************)
EXTENDS Naturals, Sequences, FiniteSets, TLC, Json

CONSTANTS Pairwise       \* TRUE: all pairs of modifications; FALSE: single modifications only

Rng(s) == {s[x] : x \in 1..Len(s)}
I(n) == <<"i", n>>
S(x) == <<"s", x>>
None == <<"n", 0>>
B(b) == <<"b", IF b THEN 1 ELSE 0>>
L(xs) == <<"l", xs>>
TS == <<"t", 0>>                         \* pandas.Timestamp("2020-01-01")
TD == <<"d", 1>>                         \* pandas.Timedelta(days=1)

(* a built-in check: name, statistics (sequence of <<argument name, value>>), options *)
Chk(k, st) == [k |-> k, st |-> st, ina |-> TRUE, nfc |-> 0, warn |-> FALSE]
GE(n) == Chk("greater_than_or_equal_to", << <<"min_value", I(n)>> >>)
LE(n) == Chk("less_than_or_equal_to", << <<"max_value", I(n)>> >>)
GT(n) == Chk("greater_than", << <<"min_value", I(n)>> >>)
LT(n) == Chk("less_than", << <<"max_value", I(n)>> >>)
EQ(v) == Chk("equal_to", << <<"value", v>> >>)
NE(v) == Chk("not_equal_to", << <<"value", v>> >>)
ISIN(xs) == Chk("isin", << <<"allowed_values", L(xs)>> >>)
NOTIN(xs) == Chk("notin", << <<"forbidden_values", L(xs)>> >>)
INRANGE(a, b, im, ix) == Chk("in_range", << <<"min_value", I(a)>>, <<"max_value", I(b)>>,
                                             <<"include_min", B(im)>>, <<"include_max", B(ix)>> >>)
STRM(p) == Chk("str_matches", << <<"pattern", S(p)>> >>)
STRC(p) == Chk("str_contains", << <<"pattern", S(p)>> >>)
STRS(p) == Chk("str_startswith", << <<"string", S(p)>> >>)
STRE(p) == Chk("str_endswith", << <<"string", S(p)>> >>)
STRLEN(a, b) == Chk("str_length", << <<"min_value", a>>, <<"max_value", b>> >>)

UVE(xs) == Chk("unique_values_eq", << <<"values", L(xs)>> >>)
GETS == Chk("greater_than_or_equal_to", << <<"min_value", TS>> >>)
GETD == Chk("greater_than_or_equal_to", << <<"min_value", TD>> >>)
LETS == Chk("less_than_or_equal_to", << <<"max_value", TS>> >>)
CheckSeqs ==
  { <<GE(0)>>, <<LE(5)>>, <<GT(0)>>, <<LT(9)>>, <<EQ(I(1))>>, <<NE(I(1))>>, <<EQ(S("x"))>>, <<ISIN(<<I(1), I(2)>>)>>,
    <<NOTIN(<<I(3)>>)>>, <<ISIN(<<S("x"), S("y")>>)>>, <<INRANGE(0, 5, TRUE, TRUE)>>, <<INRANGE(0, 5, FALSE, TRUE)>>,
    <<INRANGE(0, 5, TRUE, FALSE)>>, <<STRM("a|b")>>, <<STRC("b")>>, <<STRS("a")>>, <<STRE("b")>>,
    <<STRLEN(None, I(3))>>, <<STRLEN(I(1), None)>>, <<STRLEN(I(1), I(3))>>,
    <<[GE(0) EXCEPT !.ina = FALSE]>>, <<[GE(0) EXCEPT !.nfc = 2]>>, <<[GE(0) EXCEPT !.warn = TRUE]>>,
    <<[INRANGE(0, 5, TRUE, TRUE) EXCEPT !.ina = FALSE, !.nfc = 2]>>, <<[ISIN(<<I(1), I(2)>>) EXCEPT !.warn = TRUE]>>,
    <<GE(0), LE(5)>>, <<LE(5), GE(0)>>, <<GE(0), LT(9), NE(I(1))>>,
    <<GE(0), GE(1)>>, <<GE(1), LE(5), GE(0)>>, <<STRM("a|b"), STRM("a")>>,       \* a repeated check name
    <<UVE(<<S("x"), S("y")>>)>> }

Texts == {"plain", "dq", "sq", "colon"}          \* T | say "hi" | it's | a: b #c   (quote / YAML-sensitive)
Col(k, dt) == [key |-> k, dtype |-> dt, nullable |-> FALSE, unique |-> FALSE, coerce |-> FALSE, required |-> TRUE,
               regex |-> FALSE, title |-> "none", desc |-> "none", checks |-> <<>>]
Lvl(nm, dt) == [name |-> nm, dtype |-> dt, nullable |-> FALSE, unique |-> FALSE, coerce |-> FALSE,
                title |-> "none", desc |-> "none", checks |-> <<>>]
Base == [cols |-> <<Col("a", "int64"), Col("b", "str")>>, index |-> <<>>, checks |-> <<>>, dtype |-> "none",
         coerce |-> FALSE, strict |-> "F", name |-> "none", ordered |-> FALSE, unique |-> <<>>, report |-> "all",
         ucn |-> FALSE, amc |-> FALSE, title |-> "none", desc |-> "none"]

Dtypes == {"float64", "str", "bool", "datetime64[ns]", "Int64", "object", "int8", "category", "none"}
IndexChoices ==
  { <<Lvl("none", "int64")>>, <<Lvl("i", "int64")>>, <<[Lvl("i", "int64") EXCEPT !.unique = TRUE]>>,
    <<[Lvl("i", "str") EXCEPT !.nullable = TRUE, !.coerce = TRUE]>>,
    <<[Lvl("i", "int64") EXCEPT !.checks = <<GE(0)>>]>>, <<[Lvl("i", "int64") EXCEPT !.title = "plain", !.desc = "dq"]>>,
    <<Lvl("i", "int64"), Lvl("j", "str")>>, <<Lvl("i", "int64"), [Lvl("j", "str") EXCEPT !.unique = TRUE]>> }

(* a modification: the attribute it sets (at) and the value; Vals(at) is homogeneous *)
Ats == {"a.dtype", "a.nullable", "a.unique", "a.coerce", "a.regex", "coerce", "ordered", "ucn", "amc", "a.required",
        "a.title", "a.desc", "title", "desc", "name", "a.checks", "a.key", "index", "checks", "dtype", "strict",
        "unique", "report", "cols", "a.datetime", "a.timedelta"}
Vals(at) ==
  CASE at = "a.dtype" -> Dtypes
    [] at \in {"a.nullable", "a.unique", "a.coerce", "a.regex", "coerce", "ordered", "ucn", "amc"} -> {TRUE}
    [] at = "a.required" -> {FALSE}
    [] at \in {"a.title", "a.desc", "title", "desc", "name"} -> Texts
    [] at = "a.checks" -> CheckSeqs
    [] at = "a.key" -> {"a'b", "a b", "A", "1", "#0", "#t"}     \* "#0": the integer 0, "#t": the tuple ("x", "a") (MultiIndex columns)
    [] at = "index" -> IndexChoices
    [] at = "checks" -> {<<GE(0)>>, <<GE(0), LE(5)>>, <<[GE(0) EXCEPT !.ina = FALSE]>>}
    [] at = "dtype" -> {"int64", "float64"}
    [] at = "strict" -> {"T", "filter"}
    [] at = "unique" -> {<<"a">>, <<"a", "b">>}
    [] at = "report" -> {"exclude_first", "exclude_last"}
    [] at = "cols" -> {"drop_b", "swap"}
    [] at = "a.timedelta" -> {<<GETD>>}                        \* a timedelta column with a Timedelta statistic
    [] at = "a.datetime" -> {<<GETS>>, <<GETS, LETS>>}       \* a datetime column with a Timestamp statistic

SetA(Sc, f(_)) == [Sc EXCEPT !.cols = [i \in 1..Len(@) |-> IF i = 1 THEN f(@[i]) ELSE @[i]]]
Apply(Sc, at, v) ==
  CASE at = "a.dtype"    -> SetA(Sc, LAMBDA c : [c EXCEPT !.dtype = v])
    [] at = "a.nullable" -> SetA(Sc, LAMBDA c : [c EXCEPT !.nullable = v])
    [] at = "a.unique"   -> SetA(Sc, LAMBDA c : [c EXCEPT !.unique = v])
    [] at = "a.coerce"   -> SetA(Sc, LAMBDA c : [c EXCEPT !.coerce = v])
    [] at = "a.regex"    -> SetA(Sc, LAMBDA c : [c EXCEPT !.regex = v])
    [] at = "a.required" -> SetA(Sc, LAMBDA c : [c EXCEPT !.required = v])
    [] at = "a.title"    -> SetA(Sc, LAMBDA c : [c EXCEPT !.title = v])
    [] at = "a.desc"     -> SetA(Sc, LAMBDA c : [c EXCEPT !.desc = v])
    [] at = "a.checks"   -> SetA(Sc, LAMBDA c : [c EXCEPT !.checks = v])
    [] at = "a.key"      -> SetA(Sc, LAMBDA c : [c EXCEPT !.key = v])
    [] at = "index"      -> [Sc EXCEPT !.index = v]
    [] at = "checks"     -> [Sc EXCEPT !.checks = v]
    [] at = "dtype"      -> [Sc EXCEPT !.dtype = v]
    [] at = "coerce"     -> [Sc EXCEPT !.coerce = v]
    [] at = "strict"     -> [Sc EXCEPT !.strict = v]
    [] at = "name"       -> [Sc EXCEPT !.name = v]
    [] at = "ordered"    -> [Sc EXCEPT !.ordered = v]
    [] at = "unique"     -> [Sc EXCEPT !.unique = v]
    [] at = "report"     -> [Sc EXCEPT !.report = v]
    [] at = "ucn"        -> [Sc EXCEPT !.ucn = v]
    [] at = "amc"        -> [Sc EXCEPT !.amc = v]
    [] at = "title"      -> [Sc EXCEPT !.title = v]
    [] at = "desc"       -> [Sc EXCEPT !.desc = v]
    [] at = "a.datetime" -> SetA(Sc, LAMBDA c : [c EXCEPT !.dtype = "datetime64[ns]", !.checks = v])
    [] at = "a.timedelta" -> SetA(Sc, LAMBDA c : [c EXCEPT !.dtype = "timedelta64[ns]", !.checks = v])
    [] at = "cols"       -> IF v = "drop_b" THEN [Sc EXCEPT !.cols = <<@[1]>>] ELSE [Sc EXCEPT !.cols = <<@[2], @[1]>>]

---------------------------------------------------------------------------
(* stage 1: the statistics form.  Checks become a dict keyed by check name. *)
Names(cs) == [i \in 1..Len(cs) |-> cs[i].k]
FirstPos(cs, k) == CHOOSE i \in 1..Len(cs) : cs[i].k = k /\ \A j \in 1..(i - 1) : cs[j].k # k
LastOf(cs, k) == cs[CHOOSE i \in 1..Len(cs) : cs[i].k = k /\ \A j \in (i + 1)..Len(cs) : cs[j].k # k]
RECURSIVE DictOrder(_, _)
DictOrder(cs, seen) ==
  IF cs = <<>> THEN <<>>
  ELSE IF Head(cs).k \in seen THEN DictOrder(Tail(cs), seen)
       ELSE <<Head(cs).k>> \o DictOrder(Tail(cs), seen \cup {Head(cs).k})
CheckDict(cs) == LET order == DictOrder(cs, {}) IN [i \in 1..Len(order) |-> LastOf(cs, order[i])]
NoRepeat(cs) == \A i, j \in 1..Len(cs) : cs[i].k = cs[j].k => i = j

CompStats(c) == [c EXCEPT !.checks = CheckDict(@)]
Stats(Sc) == [Sc EXCEPT !.cols = [i \in 1..Len(@) |-> CompStats(@[i])],
                         !.index = [i \in 1..Len(@) |-> CompStats(@[i])],
                         !.checks = CheckDict(@)]
(* stage 2 / 3: one slot per attribute, written and read back.  In the design every attribute of the  *)
(* statistics form has a slot in every format, so a document is the statistics form itself.            *)
EmitDoc(fmt, st) == st
ReadDoc(fmt, d) == d
Collapse(Sc) == Stats(Sc)
AllNoRepeat(Sc) == /\ \A i \in 1..Len(Sc.cols) : NoRepeat(Sc.cols[i].checks)
                   /\ \A i \in 1..Len(Sc.index) : NoRepeat(Sc.index[i].checks)
                   /\ NoRepeat(Sc.checks)

---------------------------------------------------------------------------
VARIABLES s0, fmt, pc, doc, s1, doc2, mods
vars == <<s0, fmt, pc, doc, s1, doc2, mods>>

(* the attributes a modification writes: two modifications of one pair never write the same attribute (a datetime    *)
(* column whose dtype is then overwritten would be an ill-typed schema - a Timestamp bound on a bool column - that     *)
(* the statistics form is not meant to carry)                                                                        *)
Touches(at) == IF at \in {"a.datetime", "a.timedelta"} THEN {"a.dtype", "a.checks"} ELSE {at}
Init == /\ \E at1 \in Ats : \E v1 \in Vals(at1) :
             \/ /\ s0 = Apply(Base, at1, v1) /\ mods = <<at1>>
             \/ /\ Pairwise
                /\ \E at2 \in {x \in Ats : x # at1 /\ Touches(x) \cap Touches(at1) = {}} : \E v2 \in Vals(at2) :
                      /\ s0 = Apply(Apply(Base, at1, v1), at2, v2) /\ mods = <<at1, at2>>
        /\ fmt \in {"yaml", "json", "script"}
        /\ pc = "schema" /\ doc = <<>> /\ s1 = <<>> /\ doc2 = <<>>
Write  == pc = "schema" /\ doc' = EmitDoc(fmt, Stats(s0)) /\ pc' = "written" /\ UNCHANGED <<s0, fmt, s1, doc2, mods>>
Read   == pc = "written" /\ s1' = ReadDoc(fmt, doc) /\ pc' = "read" /\ UNCHANGED <<s0, fmt, doc, doc2, mods>>
Write2 == pc = "read" /\ doc2' = EmitDoc(fmt, Stats(s1)) /\ pc' = "rewritten" /\ UNCHANGED <<s0, fmt, doc, s1, mods>>
Next == Write \/ Read \/ Write2
Spec == Init /\ [][Next]_vars

RoundTrip == pc \in {"read", "rewritten"} => s1 = Collapse(s0) /\ (AllNoRepeat(s0) => s1 = s0)
TextFixpoint == pc = "rewritten" => doc2 = doc
WriterPure == [][s0' = s0]_vars
(* the format is not injective exactly on repeated check names: TLC exhibits the witness *)
LossOnlyByRepeat == pc = "read" => (s1 # s0 <=> ~AllNoRepeat(s0))

Emit == pc = "rewritten" =>
  PrintT(ToJson([kind |-> "io", fmt |-> fmt, schema |-> s0, expect |-> s1, lossy |-> s1 # s0, mods |-> mods]))
=============================================================================
