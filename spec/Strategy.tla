------------------------------ MODULE Strategy ------------------------------
(***************************************************************************)
(* C13 - every synthesised example satisfies the schema that produced it.   *)
(*                                                                         *)
(* A check strategy is a transformer of VALUE SETS.  The values of a         *)
(* numeric column are abstracted by their position relative to the four      *)
(* constants c0 < c1 < c2 < c3 that the checks may mention: rank 2i is the    *)
(* constant ci, an odd rank lies strictly between two constants, -1 and 7    *)
(* lie outside.  Every built-in numeric check only compares, so this          *)
(* abstraction is exact (order-isomorphic) for arbitrarily large draws.        *)
(*                                                                         *)
(* pandera/strategies/pandas_strategies.py:field_element_strategy folds the    *)
(* checks of a field left to right: the first strategy is a BASE strategy      *)
(* (strategy=None), every later one is CHAINED onto the previous one.  One     *)
(* action per fold step:                                                       *)
(*    Start -> Add(check) -> Add(check) ... -> Container(nullable, unique, n)   *)
(* with two tracks: `gen` as the design demands (a chained strategy filters     *)
(* the previous one) and `ship` as the code does it (eq_strategy REPLACES the    *)
(* previous strategy by just(value)).                                           *)
(*                                                                         *)
(* TLC proves Sound for the design at every step, shows exactly which chains     *)
(* are unsound as shipped, and says which schemas are unsatisfiable.  In mode     *)
(* "judge" it evaluates the meaning of the schema on every recorded draw of the   *)
(* real strategy (ranks of the drawn values).                                     *)
(***************************************************************************)
EXTENDS Integers, Sequences, FiniteSets, TLC, Json, IOUtils

CONSTANTS Mode, MaxChain

U == -1..7                                   \* ranks
C(i) == 2 * i                                \* rank of constant ci
Checks ==
  {[k |-> "eq", a |-> i, b |-> 0] : i \in {0, 1}} \cup {[k |-> "ne", a |-> i, b |-> 0] : i \in {1}}
  \cup {[k |-> op, a |-> i, b |-> 0] : op \in {"gt", "ge", "lt", "le"}, i \in {1, 2}}
  \cup {[k |-> "in_range", a |-> 0, b |-> 2], [k |-> "in_range_open", a |-> 1, b |-> 3],
        [k |-> "in_range_lo", a |-> 0, b |-> 2], [k |-> "in_range_hi", a |-> 1, b |-> 3]}    \* open at the low / at the high end only
  \cup {[k |-> "isin", a |-> 0, b |-> 2], [k |-> "notin", a |-> 1, b |-> 2]}

Sat(c, v) ==
  CASE c.k = "eq" -> v = C(c.a)
    [] c.k = "ne" -> v # C(c.a)
    [] c.k = "gt" -> v > C(c.a)
    [] c.k = "ge" -> v >= C(c.a)
    [] c.k = "lt" -> v < C(c.a)
    [] c.k = "le" -> v <= C(c.a)
    [] c.k = "in_range" -> C(c.a) <= v /\ v <= C(c.b)
    [] c.k = "in_range_open" -> C(c.a) < v /\ v < C(c.b)
    [] c.k = "in_range_lo" -> C(c.a) < v /\ v <= C(c.b)
    [] c.k = "in_range_hi" -> C(c.a) <= v /\ v < C(c.b)
    [] c.k = "isin" -> v \in {C(c.a), C(c.b)}
    [] c.k = "notin" -> v \notin {C(c.a), C(c.b)}
SatSet(c) == {v \in U : Sat(c, v)}
AllSat(chain) == {v \in U : \A i \in 1..Len(chain) : Sat(chain[i], v)}

(* what one fold step produces: prev = NoStrategy for the base strategy *)
NoStrategy == {-100}
StepDesign(prev, c) == IF prev = NoStrategy THEN SatSet(c) ELSE prev \cap SatSet(c)
StepShipped(prev, c) ==
  IF prev = NoStrategy THEN SatSet(c)
  ELSE IF c.k = "eq" THEN {C(c.a)}                  \* eq_strategy ignores the strategy it is chained onto
  ELSE prev \cap SatSet(c)

---------------------------------------------------------------------------
Draws == IF Mode = "judge" THEN JsonDeserialize(IOEnv.DRAWS_FILE) ELSE <<>>

VARIABLES chain, gen, ship, pc, cont, did
vars == <<chain, gen, ship, pc, cont, did>>

Init == IF Mode = "judge"
        THEN /\ did \in 1..Len(Draws) /\ chain = Draws[did].chain /\ gen = NoStrategy /\ ship = NoStrategy
             /\ pc = "drawn" /\ cont = [nullable |-> Draws[did].nullable, unique |-> Draws[did].unique, size |-> Draws[did].size]
        ELSE /\ did = 0 /\ chain = <<>> /\ gen = NoStrategy /\ ship = NoStrategy /\ pc = "fold"
             /\ cont = [nullable |-> FALSE, unique |-> FALSE, size |-> 0]
Add(c) == /\ pc = "fold" /\ Len(chain) < MaxChain
          /\ chain' = Append(chain, c)
          /\ gen' = StepDesign(gen, c) /\ ship' = StepShipped(ship, c)
          /\ UNCHANGED <<pc, cont, did>>
Container(nl, un, n) == /\ pc = "fold" /\ Len(chain) > 0
                        /\ cont' = [nullable |-> nl, unique |-> un, size |-> n] /\ pc' = "schema"
                        /\ UNCHANGED <<chain, gen, ship, did>>
Next == (\E c \in Checks : Add(c)) \/ (\E nl \in BOOLEAN, un \in BOOLEAN, n \in {1, 3} : Container(nl, un, n))
Spec == Init /\ [][Next]_vars

(* design: whatever is generated satisfies every check of the chain, at every fold step *)
Sound == (Mode # "judge" /\ gen # NoStrategy) => gen \subseteq AllSat(chain)
(* and nothing satisfiable is lost: the design generates exactly the satisfying values *)
Complete == (Mode # "judge" /\ gen # NoStrategy) => gen = AllSat(chain)
(* the shipped fold is unsound exactly when an eq step follows a step it contradicts *)
ShippedBad == IF ship = NoStrategy THEN {} ELSE ship \ AllSat(chain)
ShippedUnsoundOnlyByEq == (Mode # "judge" /\ ShippedBad # {}) => \E i \in 2..Len(chain) : chain[i].k = "eq"
Satisfiable == /\ AllSat(chain) # {}
               /\ (cont.unique => Cardinality(AllSat(chain)) >= cont.size \/ \E v \in AllSat(chain) : v % 2 # 0)
               \* an odd rank stands for a whole open interval of values: enough distinct values

(* mode "judge": the meaning of the schema on one recorded draw *)
D == Draws[did]
DrawBroken ==
  LET vals == D.ranks
      bad == {i \in 1..Len(vals) : vals[i] # -99 /\ ~\A j \in 1..Len(chain) : Sat(chain[j], vals[i])}      \* -99 = null
  IN (IF bad = {} THEN {} ELSE {"CheckViolated"})
     \cup (IF ~cont.nullable /\ \E i \in 1..Len(vals) : vals[i] = -99 THEN {"NullInNonNullable"} ELSE {})
     \cup (IF cont.unique /\ D.has_duplicates THEN {"DuplicateInUnique"} ELSE {})
     \cup (IF Len(vals) # cont.size THEN {"WrongSize"} ELSE {})

(* string checks: enumerated here, judged by the implementation's validator (draws are arbitrary unicode) *)
StrChecks == {"str_matches", "str_contains", "str_startswith", "str_endswith", "str_length_max", "str_length_min",
              "str_length_both", "isin", "eq", "ne", "notin"}
StrChains == UNION {[1..n -> StrChecks] : n \in 1..(IF MaxChain > 2 THEN 2 ELSE MaxChain)}

Emit ==
  /\ (pc = "fold" /\ chain = <<>> /\ Mode # "judge") =>
       \A sc \in StrChains : PrintT(ToJson([kind |-> "strategy_str", chain |-> sc]))
  /\ pc = "schema" =>
       PrintT(ToJson([kind |-> "strategy", chain |-> chain, cont |-> cont, satisfiable |-> Satisfiable,
                      shipped_bad |-> ShippedBad, gen |-> gen]))
  /\ (pc = "drawn" /\ DrawBroken # {}) =>
       PrintT(ToJson([kind |-> "broken", did |-> did, clauses |-> DrawBroken]))
  /\ pc = "drawn" => PrintT(ToJson([kind |-> "judged", did |-> did]))
=============================================================================
