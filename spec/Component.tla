------------------------------ MODULE Component ------------------------------
(***************************************************************************)
(* Stand-alone schema components on a DataFrame (C03, C04, C06):             *)
(*   Column(...).validate(df)   pandera/backends/pandas/components.py:        *)
(*                              ColumnBackend.validate                        *)
(*   Index(...).validate(df)    IndexBackend.validate                         *)
(* with their parsing options: default, coerce, custom parsers (a named,       *)
(* idempotent family: abs, clip0), regex column names, and inplace.            *)
(*                                                                           *)
(* The run is modelled at the granularity that matters for aliasing: which     *)
(* object every write goes to.                                                 *)
(*   Copy        working := caller's frame, or a copy of it unless inplace      *)
(*   per matched column:                                                        *)
(*     Default   working[c] := fillna(default)          (write to working)      *)
(*     Coerce    working[c] := coerce(working[c])       (write to working)      *)
(*     Inner     ArraySchemaBackend.validate(working, inplace): copies again     *)
(*               unless inplace, coerces, runs the parsers, runs the checks      *)
(*     WriteBack working[c] := parsed column, when the schema has parsers        *)
(*   Finish      return working | raise                                          *)
(* `caller` is the frame the user holds; NoCallerMutation says it is written     *)
(* only through an alias that inplace=True created.                              *)
(***************************************************************************)
EXTENDS Parse, Json

CONSTANTS MaxLen, Rich

ParserApply(name, v) ==
  IF IsNull(v) THEN v
  ELSE CASE name = "abs"   -> IF Halves(v) < 0 THEN <<v[1], -v[2]>> ELSE v
         [] name = "clip0" -> IF Halves(v) < 0 THEN <<v[1], 0>> ELSE v
RECURSIVE ApplyParsers(_, _)
ApplyParsers(ps, cells) ==
  IF ps = <<>> THEN cells ELSE ApplyParsers(Tail(ps), [i \in 1..Len(cells) |-> ParserApply(Head(ps), cells[i])])

(* what one matched column becomes; the errors its validation collects *)
ParsedColumn(S, f) ==
  LET f1 == FillDefault(S.default, f)
      f2 == IF S.coerce THEN CoerceField(S.dtype, f1) ELSE f1
  IN [f2 EXCEPT !.cells = ApplyParsers(S.parsers, @)]
ColumnErrors(S, f) ==
  LET f1 == FillDefault(S.default, f)
      ce == IF S.coerce THEN CoerceErrors(S.dtype, f1) ELSE <<>>
      fs == [dtype |-> S.dtype, nullable |-> S.nullable, unique |-> FALSE, report |-> "all", name |-> NA, checks |-> S.checks]
  IN ce \o FieldErrorsIdeal(fs, ParsedColumn(S, f))

---------------------------------------------------------------------------
VARIABLES kind, S, cols, idx, lazy, inplace, caller, work, aliased, pc, out
vars == <<kind, S, cols, idx, lazy, inplace, caller, work, aliased, pc, out>>

FVals == {fv(-2), fv(2), fv(3), NA}
IVals == {iv(-1), iv(0), iv(2)}
Field_(pd, cells) == [name |-> NA, pd |-> pd, cells |-> cells, idx |-> [i \in 1..Len(cells) |-> iv(i - 1)]]
ColumnSchemas ==
  [dtype : {"float64", "int64"}, coerce : BOOLEAN, default : {NA, fv(2)}, nullable : BOOLEAN,
   parsers : {<<>>, <<"abs">>} \cup (IF Rich THEN {<<"clip0">>, <<"abs", "clip0">>} ELSE {}),
   checks : {<<>>, <<Chk("ge", <<iv(0)>>)>>}, regex : BOOLEAN]
IndexSchemas == [dtype : {"int64", "float64"}, coerce : BOOLEAN, checks : {<<>>, <<Chk("ge", <<iv(1)>>)>>}]

Init ==
  /\ kind \in {"column", "index"} /\ lazy \in BOOLEAN /\ inplace \in BOOLEAN
  /\ \E n \in 1..MaxLen :
       IF kind = "column"
       THEN /\ S \in ColumnSchemas
            /\ \E pd \in {"float64", "int64"} : \E c1 \in [1..n -> IF pd = "float64" THEN FVals ELSE IVals] :
               \E c2 \in [1..n -> IF pd = "float64" THEN {fv(2), fv(-2)} ELSE {iv(2), iv(-1)}] :
                 cols = IF S.regex THEN <<Field_(pd, c1), Field_(pd, c2)>> ELSE <<Field_(pd, c1)>>     \* x1 (, x2) ; a column y is always there
            /\ idx = [pd |-> "int64", cells |-> [i \in 1..n |-> iv(i - 1)]]
       ELSE /\ S \in IndexSchemas
            /\ cols = <<Field_("int64", [i \in 1..n |-> iv(i)])>>
            /\ \E ipd \in {"int64", "float64"} : \E ic \in [1..n -> IF ipd = "int64" THEN {iv(0), iv(2)} ELSE {fv(2), fv(4), fv(3)}] :
                 idx = [pd |-> ipd, cells |-> ic]
  /\ caller = [cols |-> cols, idx |-> idx] /\ work = caller /\ aliased = TRUE /\ pc = "copy" /\ out = [kind |-> "none"]

(* every write to the working frame reaches the caller's frame exactly when they are the same object *)
Write(new) == /\ work' = new /\ caller' = IF aliased THEN new ELSE caller

Copy == /\ pc = "copy" /\ aliased' = inplace /\ pc' = "parse"
        /\ UNCHANGED <<kind, S, cols, idx, lazy, inplace, caller, work, out>>

IdxAsField == [name |-> NA, pd |-> work.idx.pd, cells |-> work.idx.cells, idx |-> [i \in 1..Len(work.idx.cells) |-> iv(i - 1)]]
Parse_ ==
  /\ pc = "parse"
  /\ IF kind = "column"
     THEN LET newcols == [j \in 1..Len(work.cols) |-> ParsedColumn(S, work.cols[j])]
              changes == S.coerce \/ ~IsNull(S.default) \/ S.parsers # <<>>
          IN IF changes THEN Write([work EXCEPT !.cols = newcols]) ELSE UNCHANGED <<work, caller>>
     ELSE LET r == CoerceCells(S.dtype, work.idx.cells)
          IN IF S.coerce /\ r.ok THEN Write([work EXCEPT !.idx = [pd |-> Phys(S.dtype), cells |-> r.cells]])
             ELSE UNCHANGED <<work, caller>>
  /\ pc' = "check" /\ UNCHANGED <<kind, S, cols, idx, lazy, inplace, aliased, out>>

Errors ==
  IF kind = "column" THEN LET RECURSIVE All(_) All(j) == IF j > Len(cols) THEN <<>> ELSE ColumnErrors(S, cols[j]) \o All(j + 1) IN All(1)
  ELSE LET f == [name |-> NA, pd |-> idx.pd, cells |-> idx.cells, idx |-> [i \in 1..Len(idx.cells) |-> iv(i - 1)]]
           ce == IF S.coerce THEN CoerceErrors(S.dtype, f) ELSE <<>>
           fs == [dtype |-> S.dtype, nullable |-> FALSE, unique |-> FALSE, report |-> "all", name |-> NA, checks |-> S.checks]
       IN ce \o FieldErrorsIdeal(fs, IF S.coerce THEN CoerceField(S.dtype, f) ELSE f)
Check_ ==
  /\ pc = "check"
  /\ out' = IF Errors = <<>> THEN [kind |-> "ok"] ELSE [kind |-> IF lazy THEN "SchemaErrors" ELSE "SchemaError"]
  /\ pc' = "done" /\ UNCHANGED <<kind, S, cols, idx, lazy, inplace, caller, work, aliased>>
Next == Copy \/ Parse_ \/ Check_
Spec == Init /\ [][Next]_vars

Done == pc = "done"
(* C04 *)
NoCallerMutation == ~inplace => caller = [cols |-> cols, idx |-> idx]
(* C03: what is returned conforms to the schema with the parsing options off, and parsing it again changes nothing *)
Returned == work
ParsePostcondition ==
  (Done /\ out.kind = "ok" /\ kind = "column") =>
     \A j \in 1..Len(work.cols) :
        LET fs == [dtype |-> S.dtype, nullable |-> S.nullable, unique |-> FALSE, report |-> "all", name |-> NA, checks |-> S.checks]
        IN FieldSat(fs, work.cols[j])
ParseFixpoint ==
  (Done /\ out.kind = "ok" /\ kind = "column") =>
     \A j \in 1..Len(work.cols) : ParsedColumn(S, work.cols[j]) = work.cols[j] /\ ColumnErrors(S, work.cols[j]) = <<>>

Emit == Done =>
  PrintT(ToJson([kind |-> "component", comp |-> kind, schema |-> S, cols |-> cols, idx |-> idx,
                 opts |-> [lazy |-> lazy, inplace |-> inplace],
                 expect |-> [kind |-> out.kind, returned |-> work, caller_after |-> caller]]))
=============================================================================
