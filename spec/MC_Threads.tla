----------------------------- MODULE MC_Threads -----------------------------
EXTENDS Threads
SameSchema == [t \in Threads |-> 1]
DistinctSchemas == [t \in Threads |-> t]
=============================================================================
