---------------------------- MODULE Trace_Threads ----------------------------
(***************************************************************************)
(* Trace validation for concurrent validations (C07, code -> spec).          *)
(*                                                                           *)
(* The harness runs two or three validations under a deterministic scheduler   *)
(* that preempts threads at every access to the shared state (component        *)
(* attributes coerce/dtype of the schema objects involved, and the context     *)
(* configuration) and records, per access and in the order the scheduler       *)
(* granted them,                                                               *)
(*    [th, ev : "read" | "write", loc, val, fn]                                *)
(* `loc` is a memory cell, `val` the printed value, `fn` the function that      *)
(* performed the access.  The first event is the initial memory and, per cell,  *)
(* the value the container overrides it with.                                   *)
(*                                                                           *)
(* The specification of the shipped code allows exactly:                        *)
(*   - reads, which see the current value (and taint the reader when the cell   *)
(*     was last written by another thread)                                      *)
(*   - in run_schema_component_checks: reads that save the value, the override   *)
(*     write, and the write restoring what this thread saved                     *)
(*   - config_context: enter (save + override), exit (restore what this thread   *)
(*     saved on its matching enter)                                              *)
(* Any other write to a shared cell, or a cell owned by two schemas that are     *)
(* meant to be independent, is not a behaviour of the specification.             *)
(*                                                                           *)
(* The process-wide BACKEND_REGISTRY dictionaries (schemas, checks, parsers) are  *)
(* filled lazily by the first validation.  Their accesses are logged as          *)
(*    [th, ev : "reg_write" | "reg_read" | "reg_probe", key, hit, fn]             *)
(* The registry only grows; a probe (membership test while registering) and a     *)
(* lookup see its current contents; and - the rule that makes lazy registration    *)
(* safe under every interleaving - a LOOKUP by get_backend of a key that default    *)
(* registration provides always finds it: whoever looks up has registered first.    *)
(***************************************************************************)
EXTENDS Integers, Sequences, FiniteSets, TLC, Json, IOUtils

Traces == JsonDeserialize(IOEnv.TRACE_FILE)

VARIABLES tid, l,
          mem,         \* [1..K -> value]
          writer,      \* [1..K -> thread | "init"]
          saved,       \* [thread name -> [1..K -> value | "none"]] values saved by run_schema_component_checks
          cfgstack,    \* [thread name -> Seq(value)]  configurations saved by config_context
          tainted,     \* threads that read a cell last written by another thread
          registry     \* keys present in the backend registries
tvars == <<tid, l, mem, writer, saved, cfgstack, tainted, registry>>

Tr == Traces[tid]
Hdr == Tr[1]
K == Len(Hdr.mem)
ThreadNames == {"A", "B", "C"}
CfgLoc == Hdr.cfgloc          \* index of the cell holding the context configuration (0 = none)

TInit == /\ tid \in 1..Len(Traces)
         /\ l = 2
         /\ mem = [i \in 1..K |-> Hdr.mem[i]]
         /\ writer = [i \in 1..K |-> "init"]
         /\ saved = [t \in ThreadNames |-> [i \in 1..K |-> "none"]]
         /\ cfgstack = [t \in ThreadNames |-> <<>>]
         /\ tainted = {}
         /\ registry = {}

E == Tr[l]
Adv == l' = l + 1 /\ tid' = tid
Taint(t, loc) == IF writer[loc] \notin {"init", t} THEN tainted \cup {t} ELSE tainted

Read ==
  /\ l <= Len(Tr) /\ E.ev = "read" /\ Adv
  /\ E.val = mem[E.loc]                                   \* a read sees the current value
  /\ tainted' = Taint(E.th, E.loc)
  /\ saved' = IF E.fn = "run_schema_component_checks"
              THEN [saved EXCEPT ![E.th][E.loc] = E.val]   \* _orig_dtype / _orig_coerce
              ELSE saved
  /\ cfgstack' = IF E.fn = "config_context"               \* _outer_config_ctx = get_config_context(None)
                 THEN [cfgstack EXCEPT ![E.th] = Append(@, E.val)]
                 ELSE cfgstack
  /\ UNCHANGED <<mem, writer, registry>>

ComponentWrite ==                                         \* override or restore, only in the container loop
  /\ l <= Len(Tr) /\ E.ev = "write" /\ E.loc # CfgLoc /\ Adv
  /\ E.fn = "run_schema_component_checks"
  /\ E.val = Hdr.override[E.loc] \/ E.val = saved[E.th][E.loc]
  /\ mem' = [mem EXCEPT ![E.loc] = E.val]
  /\ writer' = [writer EXCEPT ![E.loc] = E.th]
  /\ UNCHANGED <<saved, cfgstack, tainted, registry>>

CfgEnter ==                                               \* config_context: override (the save was a Read step)
  /\ l <= Len(Tr) /\ E.ev = "cfg_enter" /\ Adv
  /\ cfgstack[E.th] # <<>>
  /\ mem' = [mem EXCEPT ![CfgLoc] = E.val]
  /\ writer' = [writer EXCEPT ![CfgLoc] = E.th]
  /\ tainted' = Taint(E.th, CfgLoc)
  /\ UNCHANGED <<saved, cfgstack, registry>>

CfgExit ==                                                \* restore what THIS thread saved on its matching enter
  /\ l <= Len(Tr) /\ E.ev = "cfg_exit" /\ Adv
  /\ cfgstack[E.th] # <<>>
  /\ E.val = cfgstack[E.th][Len(cfgstack[E.th])]
  /\ cfgstack' = [cfgstack EXCEPT ![E.th] = SubSeq(@, 1, Len(@) - 1)]
  /\ mem' = [mem EXCEPT ![CfgLoc] = E.val]
  /\ writer' = [writer EXCEPT ![CfgLoc] = E.th]
  /\ UNCHANGED <<saved, tainted, registry>>

(* keys that default registration provides: every key some thread writes in this execution *)
Registrable == { Tr[i].key : i \in { j \in 2..Len(Tr) : Tr[j].ev = "reg_write" } }
RegWrite ==                                               \* register_backend: the registry only grows
  /\ l <= Len(Tr) /\ E.ev = "reg_write" /\ Adv
  /\ registry' = registry \cup {E.key}
  /\ UNCHANGED <<mem, writer, saved, cfgstack, tainted>>
RegProbe ==                                               \* `key not in registry` while registering
  /\ l <= Len(Tr) /\ E.ev = "reg_probe" /\ Adv
  /\ E.hit = (E.key \in registry)
  /\ UNCHANGED <<mem, writer, saved, cfgstack, tainted, registry>>
RegRead ==                                                \* get_backend: registry[key]
  /\ l <= Len(Tr) /\ E.ev = "reg_read" /\ Adv
  /\ E.hit = (E.key \in registry)
  /\ E.key \in Registrable => E.hit                       \* whoever looks up has registered first
  /\ UNCHANGED <<mem, writer, saved, cfgstack, tainted, registry>>

TraceNext == Read \/ ComponentWrite \/ CfgEnter \/ CfgExit \/ RegWrite \/ RegProbe \/ RegRead
TraceSpec == TInit /\ [][TraceNext]_tvars

NotStuck == l <= Len(Tr) => ENABLED TraceNext
(* independent schemas share no cell: checked on the header (owners of every cell) *)
IndependentSchemasShareNothing ==
  \A i \in 1..K : Cardinality({ Hdr.owners[i][j] : j \in 1..Len(Hdr.owners[i]) }) <= 1
(* at the end of every execution TLC reports what the specification concludes *)
Report ==
  l > Len(Tr) =>
     PrintT(ToJson([kind |-> "verdict", tid |-> tid,
                    tainted |-> tainted,
                    final_ok |-> \A i \in 1..K : mem[i] = Hdr.mem[i]]))
=============================================================================
