---------------------------- MODULE MC_SchemaOps ----------------------------
EXTENDS SchemaOps, Json

CONSTANTS MaxOps

A == sv(2)  B == sv(3)  C == sv(4)  Z == sv(6)  Q == sv(5)  IX == sv(7)    \* a b ab xb ba aa
Col(k, dt, nl, un, rp, co, rq, df, ti, de, me, dr, ks) ==
  [key |-> k, dtype |-> dt, nullable |-> nl, unique |-> un, report |-> rp, coerce |-> co, required |-> rq,
   regex |-> FALSE, default |-> df, title |-> ti, desc |-> de, meta |-> me, drop |-> dr, checks |-> ks]
ColA == Col(A, "int64", TRUE, TRUE, "all", TRUE, TRUE, iv(1), TRUE, TRUE, TRUE, TRUE, <<Chk("ge", <<iv(0)>>)>>)
ColB == Col(B, "float64", FALSE, FALSE, "exclude_last", FALSE, FALSE, NA, FALSE, TRUE, FALSE, TRUE, <<>>)
ColC == Col(C, "str", TRUE, FALSE, "exclude_first", FALSE, TRUE, sv(2), TRUE, FALSE, TRUE, FALSE,
            <<Chk("str_length", <<iv(1), NA>>)>>)
ColZ == Col(Z, "int64", FALSE, TRUE, "exclude_first", FALSE, TRUE, NA, TRUE, FALSE, FALSE, FALSE, <<Chk("lt", <<iv(2)>>)>>)
ColA2 == Col(A, "float64", FALSE, FALSE, "exclude_first", FALSE, TRUE, NA, FALSE, FALSE, FALSE, FALSE, <<>>)
LevelI == [key |-> IX, dtype |-> "int64", nullable |-> FALSE, unique |-> TRUE, coerce |-> FALSE,
           checks |-> <<Chk("ge", <<iv(0)>>)>>, report |-> "exclude_first", default |-> NA, title |-> TRUE,
           desc |-> FALSE, meta |-> FALSE, drop |-> FALSE]
Schema0 == [cols |-> <<ColA, ColB, ColC>>, index |-> <<>>, ordered |-> TRUE]
Schema1 == [cols |-> <<ColA, ColB, ColC>>, index |-> <<LevelI>>, ordered |-> TRUE]

Ops ==
  { [op |-> "add_columns", cols |-> <<ColZ>>], [op |-> "add_columns", cols |-> <<ColA2, ColZ>>],
    [op |-> "remove_columns", keys |-> <<A>>], [op |-> "remove_columns", keys |-> <<C, A>>],
    [op |-> "remove_columns", keys |-> <<A, Q>>],
    [op |-> "select_columns", keys |-> <<C, A, B>>], [op |-> "select_columns", keys |-> <<B>>],
    [op |-> "select_columns", keys |-> <<A, Q>>],
    [op |-> "rename_columns", map |-> << <<A, Q>> >>], [op |-> "rename_columns", map |-> << <<A, B>> >>],
    [op |-> "rename_columns", map |-> << <<Q, A>> >>], [op |-> "rename_columns", map |-> << <<A, A>>, <<B, Q>> >>],
    [op |-> "update_column", upd |-> <<A, "nullable", FALSE>>], [op |-> "update_column", upd |-> <<B, "unique", TRUE>>],
    [op |-> "update_column", upd |-> <<Q, "coerce", TRUE>>],
    [op |-> "update_columns", upd |-> <<B, "required", TRUE>>], [op |-> "update_columns", upd |-> <<Q, "required", TRUE>>],
    [op |-> "set_index", keys |-> <<A>>, drop |-> TRUE, append |-> FALSE],
    [op |-> "set_index", keys |-> <<B, A>>, drop |-> TRUE, append |-> FALSE],
    [op |-> "set_index", keys |-> <<C>>, drop |-> FALSE, append |-> TRUE],
    [op |-> "set_index", keys |-> <<B, A>>, drop |-> TRUE, append |-> TRUE],      \* three levels from Schema1: a partial reset keeps two
    [op |-> "set_index", keys |-> <<Q>>, drop |-> TRUE, append |-> FALSE],
    [op |-> "reset_index", keys |-> <<>>, drop |-> FALSE], [op |-> "reset_index", keys |-> <<A>>, drop |-> FALSE],
    [op |-> "reset_index", keys |-> <<>>, drop |-> TRUE] }
(* UpdateColumnsLosesDropInvalidRows was repaired in the repository (see known_findings.json, fixed) *)
ShippedDev == {"SetResetIndexLosesAttributes", "ResetIndexDuplicateLevelNamesKeyError"}

VARIABLES sch0, sch, shp, hist, trail, strail   \* initial, design and as-shipped schema, operations, predictions
vars == <<sch0, sch, shp, hist, trail, strail>>
Init == /\ sch0 \in {Schema0, Schema1} /\ sch = sch0 /\ shp = sch0 /\ hist = <<>> /\ trail = <<>> /\ strail = <<>>
Step(op) ==
  /\ Len(hist) < MaxOps
  /\ LET r == Apply(sch, op, {})  rs == Apply(shp, op, ShippedDev)
     IN /\ sch' = IF IsErr(r) THEN sch ELSE r
        /\ shp' = IF IsErr(rs) THEN shp ELSE rs
        /\ trail' = Append(trail, IF IsErr(r) THEN r ELSE [schema |-> r])
        /\ strail' = Append(strail, IF IsErr(rs) THEN rs ELSE [schema |-> rs])
  /\ hist' = Append(hist, op) /\ sch0' = sch0
Next == \E op \in Ops : Step(op)
Spec == Init /\ [][Next]_vars

---------------------------------------------------------------------------
(* C15 on the design *)
Fresh(k) == ~HasKey(sch, k)
RemoveAfterAdd == Fresh(Z) => RemoveColumns(AddColumns(sch, <<ColZ>>, {}), <<Z>>, {}) = sch
RenameBack == \A i \in 1..Len(sch.cols) : Fresh(Q) =>
                 RenameColumns(RenameColumns(sch, << <<sch.cols[i].key, Q>> >>, {}), << <<Q, sch.cols[i].key>> >>, {}) = sch
SelectAll == SelectColumns(sch, Keys(sch), {}) = sch
ResetAfterSet ==
  \A i \in 1..Len(sch.cols) :
     sch.cols[i].key \notin Range(LevelNames(sch)) =>
        LET U == ResetIndex(SetIndex(sch, <<sch.cols[i].key>>, TRUE, TRUE, {}), <<sch.cols[i].key>>, FALSE, {})
        IN SameColumnsAsSets(U, sch) /\ U.index = sch.index
(* an update touches only the named attribute of the named column *)
UpdateFrameCondition ==
  [][ (hist' # hist /\ hist'[Len(hist')].op \in {"update_column", "update_columns"} /\ HasKey(sch, hist'[Len(hist')].upd[1])) =>
        \A i \in 1..Len(sch.cols) :
           IF sch.cols[i].key = hist'[Len(hist')].upd[1]
           THEN sch'.cols[i] = SetAttr(sch.cols[i], hist'[Len(hist')].upd[2], hist'[Len(hist')].upd[3])
           ELSE sch'.cols[i] = sch.cols[i] ]_vars
ErrorsLeaveSchema == [][ (hist' # hist /\ IsErr(trail'[Len(trail')])) => sch' = sch ]_vars

ASSUME PrintT(ToJson([kind |-> "header", strtable |-> StrTable, retable |-> ReTable]))
Emit == Len(hist) = MaxOps =>
   PrintT(ToJson([kind |-> "schemaops", init |-> sch0,
                  hist |-> hist, expect |-> trail, asis |-> strail,
                  devs |-> IF trail # strail
                           THEN (IF \E i \in 1..Len(strail) : IsErr(strail[i]) /\ strail[i].error = "Leak:KeyError"
                                 THEN ShippedDev ELSE {"SetResetIndexLosesAttributes"})
                           ELSE {}]))
=============================================================================
