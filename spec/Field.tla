------------------------------- MODULE Field -------------------------------
(***************************************************************************)
(* One-dimensional schemas (SeriesSchema, Column, Index) on one field.      *)
(*                                                                         *)
(*   - FieldSat(S, c)      the declared meaning, written from the docs      *)
(*   - the staged pipeline of ArraySchemaBackend.validate, one operator per *)
(*     core check, in the order of the code, producing error records        *)
(*   - Run(S, c, lazy)     the whole run as a function (used by the state   *)
(*     machine in Validate.tla and by hyper-properties)                     *)
(*                                                                         *)
(* A field is  [name, pd, cells, idx]:                                      *)
(*   name  : value or NA            the Series name / column label          *)
(*   pd    : physical dtype "int64" | "float64" | "object" | "bool"         *)
(*   cells : sequence of values                                            *)
(*   idx   : sequence of index labels, same length                         *)
(* A field schema is                                                       *)
(*   [dtype, nullable, unique, report, name, checks]                       *)
(***************************************************************************)
EXTENDS Checks

WellTyped(pd, cells) ==
  \A i \in 1..Len(cells) :
     CASE pd = "int64"   -> Tag(cells[i]) = "i"
       [] pd = "float64" -> Tag(cells[i]) \in {"f", "na"}
       [] pd = "object"  -> Tag(cells[i]) \in {"s", "na", "i"}
       [] pd = "bool"    -> Tag(cells[i]) = "b"
       [] pd = "Int64"   -> Tag(cells[i]) \in {"i", "na"}

HasNull(cells) == \E i \in 1..Len(cells) : IsNull(cells[i])
HasDup(cells) == \E i, j \in 1..Len(cells) : i < j /\ DupEq(cells[i], cells[j])

---------------------------------------------------------------------------
(* dtype check.  PINNED: `str` is checked per element (a null passes), every *)
(* other dtype compares the physical dtype as a whole.                       *)
DtypeElementwise(sd) == sd = "str"
DtypeOKCell(sd, v) == sd = "str" => (IsStr(v) \/ IsNull(v))
DtypeOK(sd, f) ==
  CASE sd = "none" -> TRUE
    [] sd = "str"  -> \A i \in 1..Len(f.cells) : DtypeOKCell(sd, f.cells[i])
    [] OTHER       -> f.pd = sd

---------------------------------------------------------------------------
(* Declared meaning *)
NameOK(S, f)     == IsNull(S.name) \/ (~IsNull(f.name) /\ f.name = S.name)
NullableOK(S, f) == S.nullable \/ ~HasNull(f.cells)
UniqueOK(S, f)   == ~S.unique \/ ~HasDup(f.cells)
ChecksOK(S, f)   == \A k \in 1..Len(S.checks) :
                       /\ ~CheckRaises(S.checks[k], f.pd, f.cells)      \* a raising check is a failed check
                       /\ S.checks[k].warn \/ CheckSat(S.checks[k], f.cells)
FieldSat(S, f) == /\ NameOK(S, f)
                  /\ NullableOK(S, f)
                  /\ UniqueOK(S, f)
                  /\ DtypeOK(S.dtype, f)
                  /\ ChecksOK(S, f)

---------------------------------------------------------------------------
(* Error records.  `cases` are <<position, value>> pairs (positions are      *)
(* turned into index labels by the caller, who knows the index); a scalar    *)
(* error has no cases and carries `sval` (a string, "" = not compared).      *)
ErrCells(reason, ci, pos, cells) ==
  [reason |-> reason, ci |-> ci, scalar |-> FALSE,
   cases |-> [ j \in 1..Len(pos) |-> <<pos[j], cells[pos[j]]>> ], sval |-> ""]
ErrScalar(reason, ci, sval) ==
  [reason |-> reason, ci |-> ci, scalar |-> TRUE, cases |-> <<>>, sval |-> sval]

(* which members of a duplicated group are reported *)
DupReported(report, cells) ==
  { i \in 1..Len(cells) :
      CASE report = "exclude_first" -> \E j \in 1..(i - 1) : DupEq(cells[i], cells[j])
        [] report = "exclude_last"  -> \E j \in (i + 1)..Len(cells) : DupEq(cells[i], cells[j])
        [] report = "all"           -> \E j \in 1..Len(cells) : j # i /\ DupEq(cells[i], cells[j]) }

(* core checks, each returns a sequence of 0 or 1 errors *)
CoreName(S, f) ==
  IF NameOK(S, f) THEN <<>> ELSE << ErrScalar("WRONG_FIELD_NAME", -1, "") >>

CoreNullable(S, f) ==
  IF NullableOK(S, f) THEN <<>>
  ELSE << ErrCells("SERIES_CONTAINS_NULLS", -1,
                   SetToSortedSeq({ i \in 1..Len(f.cells) : IsNull(f.cells[i]) }), f.cells) >>

(* Ideal: every reported member of a duplicated group is named.               *)
(* Deviation DuplicateNullsNotReported (as shipped): null members are dropped  *)
(* from the failure cases (reshape_failure_cases) although they make the check *)
(* fail -- so they are neither reported nor removed by drop_invalid_rows.      *)
CoreUniqueWith(S, f, dropNulls) ==
  IF UniqueOK(S, f) THEN <<>>
  ELSE << ErrCells("SERIES_CONTAINS_DUPLICATES", -1,
                   SetToSortedSeq({ i \in DupReported(S.report, f.cells) : ~(dropNulls /\ IsNull(f.cells[i])) }),
                   f.cells) >>
CoreUnique(S, f) == CoreUniqueWith(S, f, TRUE)
CoreUniqueIdeal(S, f) == CoreUniqueWith(S, f, FALSE)

CoreDtype(S, f) ==
  IF DtypeOK(S.dtype, f) THEN <<>>
  ELSE IF DtypeElementwise(S.dtype)
       THEN << ErrCells("WRONG_DATATYPE", -1,
                        SetToSortedSeq({ i \in 1..Len(f.cells) : ~DtypeOKCell(S.dtype, f.cells[i]) }),
                        f.cells) >>
       ELSE << ErrScalar("WRONG_DATATYPE", -1, f.pd) >>

CoreCheck(S, f, k) ==
  LET c == S.checks[k]
      r == RunCheckOnField(c, f.cells)
  IN IF CheckRaises(c, f.pd, f.cells) THEN << ErrScalar("CHECK_ERROR", k - 1, "") >>
     ELSE IF r.passed \/ c.warn THEN <<>>
     ELSE IF r.scalar THEN << ErrScalar("DATAFRAME_CHECK", k - 1, "False") >>
          ELSE << ErrCells("DATAFRAME_CHECK", k - 1, r.pos, f.cells) >>

RECURSIVE CoreChecksFrom(_, _, _)
CoreChecksFrom(S, f, k) ==
  IF k > Len(S.checks) THEN <<>> ELSE CoreCheck(S, f, k) \o CoreChecksFrom(S, f, k + 1)

(* all errors of a field in the order the code produces them *)
FieldErrors(S, f) ==
  CoreName(S, f) \o CoreNullable(S, f) \o CoreUnique(S, f) \o CoreDtype(S, f)
    \o CoreChecksFrom(S, f, 1)

FieldErrorsIdeal(S, f) ==
  CoreName(S, f) \o CoreNullable(S, f) \o CoreUniqueIdeal(S, f) \o CoreDtype(S, f)
    \o CoreChecksFrom(S, f, 1)

(* warnings emitted: indexes of raise_warning checks that would have failed *)
FieldWarnings(S, f) ==
  { k - 1 : k \in { j \in 1..Len(S.checks) :
                      /\ S.checks[j].warn /\ ~CheckRaises(S.checks[j], f.pd, f.cells)
                      /\ ~RunCheckOnField(S.checks[j], f.cells).passed } }

(* positions -> index labels *)
Labelled(errs, idx) ==
  [ e \in 1..Len(errs) |->
      [errs[e] EXCEPT !.cases = [ j \in 1..Len(@) |-> << idx[@[j][1]], @[j][2] >> ]] ]
=============================================================================
