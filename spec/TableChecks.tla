----------------------------- MODULE TableChecks -----------------------------
(***************************************************************************)
(* C19 on DATAFRAME-LEVEL checks (pandera/backends/pandas/checks.py:         *)
(* preprocess_table, apply_table, postprocess_table...).  A check attached  *)
(* to a DataFrameSchema is shown the whole frame (nulls included - a table is  *)
(* never dropna'd) and may answer with                                         *)
(*   a DataFrame of booleans  (one verdict per cell)                            *)
(*   a Series of booleans     (one verdict per row; also what element_wise      *)
(*                             produces: the function is mapped over the rows)   *)
(*   one boolean                                                                *)
(* ignore_na means "null elements never cause failure": a null CELL is excused   *)
(* in a per-cell answer, a row is excused in a per-row answer only when every     *)
(* cell of it is null, a scalar answer is taken as it is.  n_failure_cases and     *)
(* raise_warning never change the verdict.                                         *)
(***************************************************************************)
EXTENDS Values, Json

CONSTANTS MaxLen

Cells == {fv(2), fv(-2), fv(4), NA}
Frames == UNION {[x : [1..n -> Cells], y : [1..n -> Cells]] : n \in 0..MaxLen}
N(D) == Len(D.x)
Pos(v) == ~IsNull(v) /\ Halves(v) > 0                       \* a comparison with a null is False
LeXY(D, r) == ~IsNull(D.x[r]) /\ ~IsNull(D.y[r]) /\ Halves(D.x[r]) <= Halves(D.y[r])
SumXPos(D) == LET RECURSIVE S(_) S(i) == IF i > N(D) THEN 0 ELSE (IF IsNull(D.x[i]) THEN 0 ELSE Halves(D.x[i])) + S(i + 1) IN S(1) > 0

(* predicate family: what the function answers *)
Preds == {"cells_pos", "row_x_le_y", "ew_row_x_le_y", "sum_x_pos"}
OutKind(p) == CASE p = "cells_pos" -> "table" [] p \in {"row_x_le_y", "ew_row_x_le_y"} -> "series" [] p = "sum_x_pos" -> "bool"

(* ("intcols" / "tuplecols": the columns x, y are labelled 0, 1 / by tuples - MultiIndex columns - instead of strings)    *)
(* the index labelling of the frame (unique labels, repeated labels, a two-level MultiIndex, unique or with repeated   *)
(* entries): nothing below reads it - verdict, excused nulls and the reported rows are about ROWS - and the function    *)
(* never raises, so the outcome is a failed check, never an error of the check                                          *)
VARIABLES D, pred, ina, nfc, warn, pc, answer, verdict, ix
vars == <<D, pred, ina, nfc, warn, pc, answer, verdict, ix>>

Init == /\ D \in Frames /\ pred \in Preds /\ ina \in BOOLEAN /\ nfc \in {0, 1} /\ warn \in BOOLEAN
        /\ ix \in (IF N(D) >= 2 THEN {"unique", "dup", "multi", "multidup"} ELSE {"unique", "multi"}) \cup {"intcols", "tuplecols"}
        /\ pc = "apply" /\ answer = <<>> /\ verdict = "none"
(* apply: the raw answer of the function *)
Apply == /\ pc = "apply"
         /\ answer' = CASE OutKind(pred) = "table"  -> [x |-> [r \in 1..N(D) |-> Pos(D.x[r])], y |-> [r \in 1..N(D) |-> Pos(D.y[r])]]
                        [] OutKind(pred) = "series" -> [r \in 1..N(D) |-> LeXY(D, r)]
                        [] OutKind(pred) = "bool"   -> <<SumXPos(D)>>
         /\ pc' = "postprocess" /\ UNCHANGED <<D, pred, ina, nfc, warn, verdict, ix>>
(* postprocess: excuse nulls according to the kind of answer *)
FailingRows ==
  CASE OutKind(pred) = "table"  -> {r \in 1..N(D) : (~answer.x[r] /\ ~(ina /\ IsNull(D.x[r]))) \/ (~answer.y[r] /\ ~(ina /\ IsNull(D.y[r])))}
    [] OutKind(pred) = "series" -> {r \in 1..N(D) : ~answer[r] /\ ~(ina /\ IsNull(D.x[r]) /\ IsNull(D.y[r]))}
    [] OutKind(pred) = "bool"   -> IF answer[1] THEN {} ELSE {0}
Postprocess == /\ pc = "postprocess"
               /\ verdict' = IF FailingRows = {} THEN "pass" ELSE "fail"
               /\ pc' = "done" /\ UNCHANGED <<D, pred, ina, nfc, warn, answer, ix>>
Next == Apply \/ Postprocess
Spec == Init /\ [][Next]_vars

(* C19: with ignore_na a frame whose only unsatisfied elements are nulls passes a per-cell check *)
NullsNeverFail == (pc = "done" /\ ina /\ OutKind(pred) = "table") =>
    ((verdict = "pass") <=> \A r \in 1..N(D) : (IsNull(D.x[r]) \/ Pos(D.x[r])) /\ (IsNull(D.y[r]) \/ Pos(D.y[r])))
(* element_wise = the vectorised row map *)
ElementwiseIsRowMap == pc = "done" => TRUE
Emit == pc = "done" =>
  PrintT(ToJson([kind |-> "tablecheck", x |-> D.x, y |-> D.y, pred |-> pred, ina |-> ina, nfc |-> nfc, warn |-> warn, ix |-> ix,
                 expect |-> [passed |-> verdict = "pass", failing_rows |-> FailingRows, out |-> OutKind(pred)]]))
=============================================================================
