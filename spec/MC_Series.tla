----------------------------- MODULE MC_Series -----------------------------
(* Exhaustive slice "Field": one SeriesSchema x one Series.                 *)
EXTENDS ValidateSeries, Json

CONSTANTS MaxLen,        \* longest Series
          Rich,          \* TRUE: full check pool and check pairs
          SliceName,     \* "plain" | "parse" | "subsample"
          SampleTable    \* set of <<len, n, random_state, positions>> observed from pandas.sample

IntVals   == {iv(0), iv(1), iv(2)}
FloatVals == {fv(-2), fv(1), fv(2), NA}
StrVals   == {sv(1), sv(2), sv(4), sv(6), NA}
BoolVals  == {bv(0), bv(1)}
MaskedVals == {iv(0), iv(1), NA}          \* pandas nullable extension dtype Int64

SeqsUpTo(V, n) == UNION { [1..k -> V] : k \in 0..n }

NumChecks ==
  { Chk("gt", <<iv(0)>>), Chk("ge", <<iv(1)>>), Chk("lt", <<fv(3)>>), Chk("le", <<iv(1)>>),
    Chk("eq", <<iv(1)>>), Chk("ne", <<iv(1)>>),
    Chk("in_range", <<iv(0), iv(2), bv(1), bv(1)>>),
    Chk("in_range", <<iv(0), iv(2), bv(0), bv(1)>>),
    Chk("in_range", <<iv(0), iv(2), bv(1), bv(0)>>),
    Chk("isin", <<iv(0), iv(2)>>), Chk("notin", <<iv(1), fv(-2)>>),
    Chk("unique_values_eq", <<iv(0), iv(1)>>) }
StrChecks ==
  { Chk("eq", <<sv(2)>>), Chk("ne", <<sv(2)>>),
    Chk("isin", <<sv(2), sv(4)>>), Chk("notin", <<sv(1)>>),
    Chk("str_matches", <<rv(1)>>), Chk("str_matches", <<rv(2)>>),
    Chk("str_matches", <<rv(4)>>), Chk("str_matches", <<rv(5)>>),
    Chk("str_contains", <<rv(8)>>), Chk("str_contains", <<rv(2)>>),
    Chk("str_contains", <<rv(7)>>),
    Chk("str_startswith", <<sv(2)>>), Chk("str_endswith", <<sv(3)>>),
    Chk("str_length", <<iv(1), iv(1)>>), Chk("str_length", <<iv(2), NA>>),
    Chk("str_length", <<NA, iv(1)>>) }
BoolChecks == { Chk("eq", <<bv(1)>>), Chk("ne", <<bv(1)>>), Chk("isin", <<bv(0)>>) }

WithOptions(C) ==
  C \cup { [c EXCEPT !.ina = FALSE] : c \in { d \in C : d.k # "unique_values_eq" } }
    \cup (IF Rich THEN { [c EXCEPT !.nfc = 1] : c \in C } \cup { [c EXCEPT !.warn = TRUE] : c \in C }
          ELSE {})

NumCheckPool  == WithOptions(NumChecks)
StrCheckPool  == WithOptions(StrChecks)
BoolCheckPool == WithOptions(BoolChecks)

Reports == {"exclude_first", "exclude_last", "all"}
Dtypes == {"none", "int64", "float64", "str", "bool", "object"}

BaseSchema == [dtype |-> "none", nullable |-> FALSE, unique |-> FALSE,
               report |-> "exclude_first", name |-> NA, checks |-> <<>>,
               coerce |-> FALSE, default |-> NA, drop |-> FALSE, index |-> NoIndexS]

(* A: core constraints without user checks *)
CoreSchemas ==
  { [BaseSchema EXCEPT !.dtype = d, !.nullable = n, !.unique = u[1], !.report = u[2], !.name = nm] :
      d \in Dtypes, n \in BOOLEAN,
      u \in ({<<FALSE, "exclude_first">>} \cup { <<TRUE, r>> : r \in Reports }),
      nm \in {NA, sv(2)} }
NamedCoreSchemas == { t \in CoreSchemas : t.dtype \in {"none", "str"} /\ ~t.unique }

(* B: one check (C: two checks when Rich) *)
CheckSchemasOf(pool, dts) ==
  LET one == { <<c>> : c \in pool }
      two == IF Rich THEN { <<c, d>> : c \in pool, d \in { e \in pool : e.k = "ne" /\ e.ina } }
             ELSE {}
  IN { [BaseSchema EXCEPT !.dtype = d, !.nullable = n, !.checks = cs] :
         d \in dts, n \in BOOLEAN, cs \in one \cup two }
SchemasInt   == CoreSchemas \cup CheckSchemasOf(NumCheckPool, {"none", "int64"})
SchemasFloat == CoreSchemas \cup CheckSchemasOf(NumCheckPool, {"none", "float64"})
SchemasStr   == CoreSchemas \cup CheckSchemasOf(StrCheckPool, {"none", "str"})
SchemasBool  == CoreSchemas \cup CheckSchemasOf(BoolCheckPool, {"none", "bool"})
(* masked integers: checks only with ignore_na (a masked comparison yields NA, whose truth value is undefined) *)
SchemasMasked == { [s EXCEPT !.dtype = IF @ = "int64" THEN "Int64" ELSE @] : s \in CoreSchemas }
                   \cup CheckSchemasOf({ c \in NumCheckPool : c.ina /\ c.k # "unique_values_eq" }, {"none", "Int64"})

Idxs(n) == { [i \in 1..n |-> iv(i - 1)], [i \in 1..n |-> iv(10 * (n + 1 - i))] }

Pools == << <<"int64", IntVals, SchemasInt>>, <<"float64", FloatVals, SchemasFloat>>,
            <<"object", StrVals, SchemasStr>>, <<"bool", BoolVals, SchemasBool>>,
            <<"Int64", MaskedVals, SchemasMasked>> >>

(* plain slice: the (schema, field) pairs explored, enumerated lazily *)
InitPlain ==
  \E p \in 1..Len(Pools) : \E k \in 0..MaxLen : \E cs \in [1..k -> Pools[p][2]] :
  \E nm \in {NA, sv(2)} : \E ix \in Idxs(k) :
  \E s \in (IF nm = NA THEN Pools[p][3] ELSE NamedCoreSchemas) : \E lz \in BOOLEAN :
     st = Start(s, [name |-> nm, pd |-> Pools[p][1], cells |-> cs, idx |-> ix,
                    idxpd |-> "int64", idxname |-> NA], lz, FALSE, {})

---------------------------------------------------------------------------
(* parse slice: coerce / default / index coercion (C03, C04) *)
ParsePools == << <<"int64", {iv(0), iv(1), iv(2)}, NA>>,
                 <<"float64", {fv(2), fv(3), NA}, fv(2)>>,
                 <<"object", {sv(10), sv(2), NA}, sv(10)>> >>
ParseIdx(k) == { <<"int64", [i \in 1..k |-> iv(i - 1)]>>,
                 <<"float64", [i \in 1..k |-> fv(2 * i)]>>,
                 <<"object", [i \in 1..k |-> IF i = 1 THEN sv(10) ELSE sv(2)]>> }
BaseIndexS == [dtype |-> "int64", nullable |-> FALSE, unique |-> FALSE, report |-> "exclude_first",
               name |-> NA, checks |-> <<>>, coerce |-> FALSE]
ParseIndexes == {NoIndexS} \cup { [BaseIndexS EXCEPT !.coerce = c, !.checks = ks] :
                                    c \in BOOLEAN, ks \in {<<>>, <<Chk("gt", <<iv(1)>>)>>} }
InitParse ==
  \E p \in 1..Len(ParsePools) : \E k \in 0..MaxLen : \E cs \in [1..k -> ParsePools[p][2]] :
  \E ix \in ParseIdx(k) :
  \E T \in {"int64", "float64", "str"} : \E co \in BOOLEAN : \E df \in {NA, ParsePools[p][3]} :
  \E nl \in BOOLEAN : \E ks \in {<<>>, <<Chk("ge", <<iv(1)>>)>>} : \E isch \in ParseIndexes :
  \E lz \in BOOLEAN : \E ip \in BOOLEAN :
     /\ (ks # <<>> => T # "str")
     /\ ~(T = "str" /\ ParsePools[p][1] = "float64")     \* "1.5"/"1.0" are outside StrTable
     /\ st = Start([BaseSchema EXCEPT !.dtype = T, !.coerce = co, !.default = df, !.nullable = nl,
                                      !.checks = ks, !.index = isch],
                    [name |-> NA, pd |-> ParsePools[p][1], cells |-> cs, idx |-> ix[2],
                     idxpd |-> ix[1], idxname |-> NA], lz, ip, {})

---------------------------------------------------------------------------
(* subsample slice: head / tail / sample with repeated rows and repeated labels (C20) *)
SubIdx(n) == { [i \in 1..n |-> iv(i - 1)], [i \in 1..n |-> iv(0)],
               [i \in 1..n |-> iv((i - 1) % 2)], [i \in 1..n |-> iv(IF i = 1 THEN 1 ELSE 0)] }
SubSchemas == { [BaseSchema EXCEPT !.dtype = "int64", !.checks = <<Chk("gt", <<iv(0)>>)>>],
                (* the index component is subsampled too: uniqueness of the labels of the selected rows *)
                [BaseSchema EXCEPT !.dtype = "int64", !.index = [BaseIndexS EXCEPT !.unique = TRUE]],
                [BaseSchema EXCEPT !.dtype = "int64", !.unique = TRUE],
                [BaseSchema EXCEPT !.dtype = "float64", !.unique = TRUE, !.checks = <<Chk("gt", <<iv(0)>>)>>] }
NoSample == <<0, 0, 0, <<>>>>
InitSubsample ==
  \E n \in 1..MaxLen : \E cs \in [1..n -> {iv(0), iv(1)}] : \E ix \in SubIdx(n) :
  \E s \in SubSchemas : \E h \in -1..n : \E t \in -1..n :
  \E smp \in {NoSample} \cup { e \in SampleTable : e[1] = n } : \E lz \in BOOLEAN :
     /\ ~(h = -1 /\ t = -1 /\ smp = NoSample)
     /\ st = StartSel(s, [name |-> NA, pd |-> "int64", cells |-> cs, idx |-> ix,
                           idxpd |-> "int64", idxname |-> NA], lz, FALSE, {},
                       [all |-> FALSE, pos |-> HeadTailSample(n, h, t, smp[4]),
                        head |-> h, tail |-> t, sample |-> smp[2], rs |-> smp[3]])

---------------------------------------------------------------------------
(* drop slice: drop_invalid_rows on a SeriesSchema (C11) *)
DropIdx(n) == { [i \in 1..n |-> iv(i - 1)], [i \in 1..n |-> iv(10 * (n + 1 - i))] }
InitDrop ==
  \E n \in 0..MaxLen : \E cs \in [1..n -> {fv(2), fv(-2), fv(4), NA}] : \E ix \in DropIdx(n) :
  \E d \in {"float64", "int64"} : \E nl \in BOOLEAN :
  \E u \in ({<<FALSE, "exclude_first">>} \cup { <<TRUE, r>> : r \in Reports }) :
  \E ks \in { <<>>, <<Chk("gt", <<iv(0)>>)>>, <<Chk("gt", <<iv(0)>>), [Chk("le", <<iv(1)>>) EXCEPT !.ina = FALSE]>> } :
  \E lz \in BOOLEAN :
     st = Start([BaseSchema EXCEPT !.dtype = d, !.nullable = nl, !.unique = u[1], !.report = u[2],
                                   !.checks = ks, !.drop = TRUE],
                [name |-> NA, pd |-> "float64", cells |-> cs, idx |-> ix, idxpd |-> "int64", idxname |-> NA],
                lz, FALSE, {})

Init == CASE SliceName = "plain" -> InitPlain
          [] SliceName = "drop" -> InitDrop
          [] SliceName = "parse" -> InitParse
          [] SliceName = "subsample" -> InitSubsample
Spec == Init /\ [][Next]_st

(* back-end facts of Checks.tla on every explored pair *)
BackendFacts ==
  st.pc = "preprocess" =>
    \A k \in 1..Len(st.S.checks) :
       /\ BackendMeetsMeaning(st.S.checks[k], st.inp0.cells)
       /\ TruncationIsPrefix(st.S.checks[k], st.inp0.cells)
       /\ IgnoreNaHidesNulls(st.S.checks[k], st.inp0.cells)
CoercionFacts ==
  st.pc = "preprocess" => \A T \in {"int64", "float64", "str"} : CoerceIdempotent(T, st.inp0.cells)

ASSUME PrintT(ToJson([kind |-> "header", strtable |-> StrTable, retable |-> ReTable]))

(* what a run predicts, as a record the harness can compare *)
Predict(s) == [kind |-> s.out.kind,
               returned |-> IF s.out.kind = "ok" THEN s.out.returned ELSE [none |-> TRUE],
               errors |-> IF s.out.kind \in {"SchemaError", "SchemaErrors"} THEN s.out.errors ELSE <<>>,
               input_after |-> s.inp]
ShippedDevs == {"IndexFailureCasesByPosition", "IndexCoercionReportedTwice", "DuplicateNullsNotReported",
                "DropRowsIndexesScalarFailure"}
AsShipped(s) == Run(StartSel(s.S, s.inp0, s.lazy, s.inplace, ShippedDevs, s.sel))

(* vector emission *)
EmitPlain ==
  (st.pc = "done" /\ st.lazy) =>
     PrintT(ToJson([kind |-> "series", schema |-> st.S, data |-> st.inp0,
                    expect |-> [sat |-> SeriesSat(st.S, st.inp0),
                                errors |-> Labelled(FieldErrorsIdeal(st.S, st.inp0), st.inp0.idx),
                                errors_asis |-> Labelled(FieldErrors(st.S, st.inp0), st.inp0.idx),
                                devs |-> IF FieldErrorsIdeal(st.S, st.inp0) # FieldErrors(st.S, st.inp0)
                                         THEN {"DuplicateNullsNotReported"} ELSE {},
                                warnings |-> FieldWarnings(st.S, st.inp0)]]))
EmitParse ==
  st.pc = "done" =>
     PrintT(ToJson([kind |-> "series_run", schema |-> st.S, data |-> st.inp0,
                    opts |-> [lazy |-> st.lazy, inplace |-> st.inplace],
                    expect |-> Predict(st),
                    asis |-> Predict(AsShipped(st)),
                    devs |-> { d \in ShippedDevs :
                                 Predict(Run(StartSel(st.S, st.inp0, st.lazy, st.inplace, {d}, st.sel))) # Predict(st) }]))
EmitSubsample ==
  st.pc = "done" =>
     LET shipped == Run(StartSel(st.S, st.inp0, st.lazy, st.inplace, {"SubsampleDedupByLabel"}, st.sel))
     IN PrintT(ToJson([kind |-> "series_run", schema |-> st.S, data |-> st.inp0,
                       opts |-> [lazy |-> st.lazy, inplace |-> FALSE, sel |-> st.sel.pos, head |-> st.sel.head,
                                 tail |-> st.sel.tail, sample |-> st.sel.sample, random_state |-> st.sel.rs],
                       expect |-> Predict(st), asis |-> Predict(shipped),
                       devs |-> IF Predict(shipped) # Predict(st) THEN {"SubsampleDedupByLabel"} ELSE {}]))
Emit == CASE SliceName = "plain" -> EmitPlain
          [] SliceName \in {"parse", "drop"} -> EmitParse
          [] SliceName = "subsample" -> EmitSubsample
=============================================================================
