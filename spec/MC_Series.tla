----------------------------- MODULE MC_Series -----------------------------
(* Exhaustive slice "Field": one SeriesSchema x one Series.                 *)
EXTENDS Field, Json

CONSTANTS MaxLen,        \* longest Series
          Rich           \* TRUE: full check pool and check pairs

IntVals   == {iv(0), iv(1), iv(2)}
FloatVals == {fv(-2), fv(1), fv(2), NA}
StrVals   == {sv(1), sv(2), sv(4), sv(6), NA}
BoolVals  == {bv(0), bv(1)}
MaskedVals == {iv(0), iv(1), NA}          \* pandas nullable extension dtype Int64

SeqsUpTo(V, n) == UNION { [1..k -> V] : k \in 0..n }

NumChecks ==
  { Chk("gt", <<iv(0)>>), Chk("ge", <<iv(1)>>), Chk("lt", <<fv(3)>>), Chk("le", <<iv(1)>>),
    Chk("eq", <<iv(1)>>), Chk("ne", <<iv(1)>>),
    Chk("in_range", <<iv(0), iv(2), bv(1), bv(1)>>),
    Chk("in_range", <<iv(0), iv(2), bv(0), bv(1)>>),
    Chk("in_range", <<iv(0), iv(2), bv(1), bv(0)>>),
    Chk("isin", <<iv(0), iv(2)>>), Chk("notin", <<iv(1), fv(-2)>>),
    Chk("unique_values_eq", <<iv(0), iv(1)>>) }
StrChecks ==
  { Chk("eq", <<sv(2)>>), Chk("ne", <<sv(2)>>),
    Chk("isin", <<sv(2), sv(4)>>), Chk("notin", <<sv(1)>>),
    Chk("str_matches", <<rv(1)>>), Chk("str_matches", <<rv(2)>>),
    Chk("str_matches", <<rv(4)>>), Chk("str_matches", <<rv(5)>>),
    Chk("str_contains", <<rv(8)>>), Chk("str_contains", <<rv(2)>>),
    Chk("str_contains", <<rv(7)>>),
    Chk("str_startswith", <<sv(2)>>), Chk("str_endswith", <<sv(3)>>),
    Chk("str_length", <<iv(1), iv(1)>>), Chk("str_length", <<iv(2), NA>>),
    Chk("str_length", <<NA, iv(1)>>) }
BoolChecks == { Chk("eq", <<bv(1)>>), Chk("ne", <<bv(1)>>), Chk("isin", <<bv(0)>>) }

WithOptions(C) ==
  C \cup { [c EXCEPT !.ina = FALSE] : c \in { d \in C : d.k # "unique_values_eq" } }
    \cup (IF Rich THEN { [c EXCEPT !.nfc = 1] : c \in C } \cup { [c EXCEPT !.warn = TRUE] : c \in C }
          ELSE {})

NumCheckPool  == WithOptions(NumChecks)
StrCheckPool  == WithOptions(StrChecks)
BoolCheckPool == WithOptions(BoolChecks)

Reports == {"exclude_first", "exclude_last", "all"}
Dtypes == {"none", "int64", "float64", "str", "bool", "object"}

BaseSchema == [dtype |-> "none", nullable |-> FALSE, unique |-> FALSE,
               report |-> "exclude_first", name |-> NA, checks |-> <<>>]

(* A: core constraints without user checks *)
CoreSchemas ==
  { [BaseSchema EXCEPT !.dtype = d, !.nullable = n, !.unique = u[1], !.report = u[2], !.name = nm] :
      d \in Dtypes, n \in BOOLEAN,
      u \in ({<<FALSE, "exclude_first">>} \cup { <<TRUE, r>> : r \in Reports }),
      nm \in {NA, sv(2)} }
NamedCoreSchemas == { t \in CoreSchemas : t.dtype \in {"none", "str"} /\ ~t.unique }

(* B: one check (C: two checks when Rich) *)
CheckSchemasOf(pool, dts) ==
  LET one == { <<c>> : c \in pool }
      two == IF Rich THEN { <<c, d>> : c \in pool, d \in { e \in pool : e.k = "ne" /\ e.ina } }
             ELSE {}
  IN { [BaseSchema EXCEPT !.dtype = d, !.nullable = n, !.checks = cs] :
         d \in dts, n \in BOOLEAN, cs \in one \cup two }
SchemasInt   == CoreSchemas \cup CheckSchemasOf(NumCheckPool, {"none", "int64"})
SchemasFloat == CoreSchemas \cup CheckSchemasOf(NumCheckPool, {"none", "float64"})
SchemasStr   == CoreSchemas \cup CheckSchemasOf(StrCheckPool, {"none", "str"})
SchemasBool  == CoreSchemas \cup CheckSchemasOf(BoolCheckPool, {"none", "bool"})
(* masked integers: checks only with ignore_na (a masked comparison yields NA, whose truth value is undefined) *)
SchemasMasked == { [s EXCEPT !.dtype = IF @ = "int64" THEN "Int64" ELSE @] : s \in CoreSchemas }
                   \cup CheckSchemasOf({ c \in NumCheckPool : c.ina /\ c.k # "unique_values_eq" }, {"none", "Int64"})

Idxs(n) == { [i \in 1..n |-> iv(i - 1)], [i \in 1..n |-> iv(10 * (n + 1 - i))] }

Pools == << <<"int64", IntVals, SchemasInt>>, <<"float64", FloatVals, SchemasFloat>>,
            <<"object", StrVals, SchemasStr>>, <<"bool", BoolVals, SchemasBool>>,
            <<"Int64", MaskedVals, SchemasMasked>> >>

VARIABLES S, inp0, lazy, inplace, inp, obj, aliased, errs, raised, pc, ci, out

M == INSTANCE ValidateSeries WITH Schemas <- {}, Fields <- {}, Modes <- BOOLEAN

(* the (schema, field) pairs explored: enumerated lazily, never materialised *)
Init == /\ \E p \in 1..Len(Pools) : \E k \in 0..MaxLen : \E cs \in [1..k -> Pools[p][2]] :
           \E nm \in {NA, sv(2)} : \E ix \in Idxs(k) :
           \E s \in (IF nm = NA THEN Pools[p][3] ELSE NamedCoreSchemas) :
              /\ S = s
              /\ inp0 = [name |-> nm, pd |-> Pools[p][1], cells |-> cs, idx |-> ix]
        /\ lazy \in BOOLEAN
        /\ inplace = FALSE
        /\ inp = inp0 /\ obj = inp0 /\ aliased = TRUE
        /\ errs = <<>> /\ raised = FALSE
        /\ pc = "preprocess" /\ ci = 1 /\ out = M!NoOut
Spec == Init /\ [][M!Next]_M!vars

VerdictEqualsSemantics == M!VerdictEqualsSemantics
IdentityOnSuccess == M!IdentityOnSuccess
ReportExact == M!ReportExact
CasesAreViolations == M!CasesAreViolations
NoCallerMutation == M!NoCallerMutation

(* back-end facts of Checks.tla on every explored pair *)
BackendFacts ==
  pc = "preprocess" =>
    \A k \in 1..Len(S.checks) :
       /\ BackendMeetsMeaning(S.checks[k], inp0.cells)
       /\ TruncationIsPrefix(S.checks[k], inp0.cells)
       /\ IgnoreNaHidesNulls(S.checks[k], inp0.cells)

ASSUME PrintT(ToJson([kind |-> "header", strtable |-> StrTable, retable |-> ReTable]))

(* vector emission: once per (schema, field), from the lazy behaviour *)
Emit ==
  (pc = "done" /\ lazy) =>
     PrintT(ToJson([kind |-> "series", schema |-> S, data |-> inp0,
                    expect |-> [sat |-> FieldSat(S, inp0),
                                errors |-> M!AllErrors,
                                warnings |-> FieldWarnings(S, inp0)]]))
=============================================================================
