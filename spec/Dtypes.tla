------------------------------- MODULE Dtypes -------------------------------
(***************************************************************************)
(* C09 - data type resolution is coherent in every engine.                  *)
(*                                                                         *)
(* An engine's registry is STATE: it is built by the sequence of           *)
(* register_dtype events executed while the engine module is imported       *)
(* (pandera/engines/engine.py: _register_equivalents writes                 *)
(* equivalents[key] := instance of the class, _register_from_parametrized_  *)
(* dtype writes dispatch[source type] := class).  The recorder              *)
(* (vf/rec_dtypes.py) logs that history from the real import and the raw    *)
(* observations Engine.dtype / == / hash / str / check for every key.       *)
(*                                                                         *)
(* This module replays the history into a model registry, one action per    *)
(* registration, then                                                       *)
(*   (a) binds the model to the code: the model registry equals the real    *)
(*       one, and the class the model's resolution order predicts for a     *)
(*       key equals the class Engine.dtype really returned;                 *)
(*   (b) evaluates the laws of the property over the whole table - every    *)
(*       key, every ordered pair of resolved types.                         *)
(* Every law is a set of witnesses (empty = the law holds); the sets are    *)
(* printed as JSON, the harness reports them.                               *)
(*                                                                         *)
(* In Mode = "params" the module only enumerates the parameterisations      *)
(* (time zones, units, categories, decimal precision/scale, arrow types)    *)
(* that the recorder must turn into native spellings.                       *)
(***************************************************************************)
EXTENDS Naturals, Sequences, FiniteSets, TLC, Json, IOUtils

CONSTANTS Mode, Units, Tzs, Cats, Precisions, Scales, Inners, ArrowPlain

Docs == JsonDeserialize(IOEnv.DTYPES_FILE)

Rng(s) == {s[x] : x \in 1..Len(s)}

---------------------------------------------------------------------------
(* parameterisations enumerated by TLC *)
ParamVectors ==
  {[family |-> "datetime", unit |-> u, tz |-> z] : u \in Units, z \in Tzs \cup {"none"}}
  \cup {[family |-> "timedelta", unit |-> u] : u \in Units}
  \cup {[family |-> "category", cats |-> c, ordered |-> o] : c \in Cats, o \in BOOLEAN}
  \cup {[family |-> "decimal", precision |-> p, scale |-> s] : p \in Precisions, s \in Scales}
  \cup {[family |-> "string", storage |-> s] : s \in {"python", "pyarrow"}}
  \cup {[family |-> "nested", inner |-> i] : i \in Inners}
  \cup {[family |-> "period", freq |-> f] : f \in {"D", "M"}}
  \cup {[family |-> "interval", sub |-> i] : i \in {"int64", "float64"}}
  \cup {[family |-> "sparse", sub |-> i] : i \in {"int64", "float64"}}
  \cup {[family |-> "arrow", atype |-> a] : a \in ArrowPlain}
  \cup {[family |-> "arrow", atype |-> "timestamp", unit |-> u, tz |-> z] : u \in Units, z \in Tzs \cup {"none"}}
  \cup {[family |-> "arrow", atype |-> a, unit |-> u] : a \in {"duration", "time32", "time64"}, u \in Units}
  \cup {[family |-> "arrow", atype |-> "decimal128", precision |-> p, scale |-> s] : p \in Precisions, s \in Scales}
  \cup {[family |-> "arrow", atype |-> "list", inner |-> i] : i \in Inners}

---------------------------------------------------------------------------
VARIABLES eng, n, equiv, disp, splits, pc
vars == <<eng, n, equiv, disp, splits, pc>>

Doc == Docs[eng]
KeyIds == 1..Len(Doc.keys)
ObjIds == 1..Len(Doc.objs)
K(k) == Doc.keys[k]
O(o) == Doc.objs[o]

Init ==
  IF Mode = "params"
  THEN /\ eng = 0 /\ n = 0 /\ equiv = <<>> /\ disp = <<>> /\ splits = {} /\ pc = "params"
  ELSE /\ eng \in 1..Len(Docs) /\ n = 0
       /\ equiv = [k \in 1..Len(Docs[eng].keys) |-> "none"]
       /\ disp = [k \in 1..Len(Docs[eng].keys) |-> "none"]
       /\ splits = {} /\ pc = "register"

(* one register_dtype event.  A key that is already bound may be bound again (pyarrow_engine       *)
(* re-registers the arrow aliases with its own classes); the event SPLITS a documented equivalence *)
(* when it moves a key away from its group and leaves other members of the group behind.           *)
Register ==
  /\ pc = "register" /\ n < Len(Doc.events)
  /\ LET ev == Doc.events[n + 1]
         ks == Rng(ev.keys)
     IN IF ev.kind = "equiv"
        THEN /\ equiv' = [k \in KeyIds |-> IF k \in ks THEN ev.cls ELSE equiv[k]]
             /\ splits' = splits \cup
                  {[key |-> K(p[1]).sp, was |-> equiv[p[1]], now |-> ev.cls, left_behind |-> K(p[2]).sp] :
                     p \in {q \in ks \X KeyIds : /\ equiv[q[1]] \notin {"none", ev.cls}
                                                  /\ equiv[q[2]] = equiv[q[1]] /\ q[2] \notin ks}}
             /\ disp' = disp
        ELSE /\ disp' = [k \in KeyIds |-> IF k \in ks THEN ev.cls ELSE disp[k]]
             /\ UNCHANGED <<equiv, splits>>
  /\ n' = n + 1 /\ UNCHANGED <<eng, pc>>

Finish == /\ pc = "register" /\ n = Len(Doc.events) /\ pc' = "resolved"
          /\ UNCHANGED <<eng, n, equiv, disp, splits>>

Next == Register \/ Finish
Spec == Init /\ [][Next]_vars

(* a documented equivalence, once registered, is never split by a later registration *)
NoSplit == [][splits' = splits]_vars
(* bindings are only ever added or moved, never dropped *)
Monotone == [][pc = "register" /\ pc' = "register" => \A k \in KeyIds : equiv[k] # "none" => equiv'[k] # "none"]_vars

---------------------------------------------------------------------------
(* the resolution order of Engine.dtype, on the model registry *)
FirstDisp(m) == LET xs == {x \in 1..Len(m) : disp[m[x]] # "none"}
                IN IF xs = {} THEN "none" ELSE disp[m[CHOOSE x \in xs : \A y \in xs : x <= y]]
ModelCls(k) ==
  IF K(k).form \in {"engine_instance", "engine_class"} THEN K(k).cls
  ELSE IF equiv[k] # "none" THEN equiv[k]
  ELSE IF K(k).form = "abstract_instance" /\ K(k).tkey # 0 /\ equiv[K(k).tkey] # "none" THEN equiv[K(k).tkey]
  ELSE IF K(k).form = "instance" /\ FirstDisp(K(k).mro) # "none" THEN FirstDisp(K(k).mro)
  ELSE "fallback"

Eq(a, b) == a # 0 /\ b # 0 /\ b \in Rng(O(a).eq)              \* a == b as the code evaluates it
Chk(a, b) == b \in Rng(O(a).check)                             \* a.check(b)
NSig(o) == <<O(o).nkind, O(o).nsigned, O(o).nbits>>
Numeric(o) == O(o).nkind \in {"int", "float", "complex"}

(* (a) binding *)
RegistryIsHistory ==
  {[key |-> K(p[1]).sp, real |-> p[2], model |-> equiv[p[1]]] : p \in {q \in Rng(Doc.final_equiv) : equiv[q[1]] # q[2]}}
  \cup {[key |-> K(k).sp, real |-> "absent", model |-> equiv[k]] :
          k \in {j \in KeyIds : equiv[j] # "none" /\ ~\E q \in Rng(Doc.final_equiv) : q[1] = j}}
  \cup {[key |-> K(p[1]).sp, real |-> p[2], model |-> disp[p[1]]] : p \in {q \in Rng(Doc.final_disp) : disp[q[1]] # q[2]}}
ResolutionConforms ==
  {[key |-> K(k).sp, form |-> K(k).form, model |-> ModelCls(k),
    real |-> IF Doc.res[k] = 0 THEN Doc.errs[k] ELSE O(Doc.res[k]).cls] :
     k \in {j \in KeyIds : /\ ModelCls(j) # "fallback"
                           /\ ~(K(j).form = "engine_class" /\ Doc.res[j] = 0 /\ Doc.errs[j] = "TypeError")
                           /\ (Doc.res[j] = 0 \/ O(Doc.res[j]).cls # ModelCls(j))}}

(* (b) the laws of the property.  They range over the accepted spellings - the keys of the        *)
(* equivalence registry and the generated parameterisations - and over the types reached from them *)
(* by resolving, resolving again and resolving the printed name.                                   *)
Accepted(k) == equiv[k] # "none" \/ K(k).param
Step1(S) == S \cup {O(o).res2 : o \in S} \cup {O(o).resprint : o \in S}
Reached == Step1(Step1({Doc.res[k] : k \in {j \in KeyIds : Accepted(j)}} \ {0}) \ {0}) \ {0}
Resolves == {[key |-> K(k).sp, error |-> Doc.errs[k]] : k \in {j \in KeyIds : Accepted(j) /\ Doc.res[j] = 0}}
Idempotent == {[type |-> O(o).cls, str |-> O(o).str] : o \in {a \in Reached : ~Eq(O(a).res2, a)}}
EquivalentsEqual ==
  UNION {{[cls |-> Doc.events[e].cls, k1 |-> K(p[1]).sp, k2 |-> K(p[2]).sp] :
            p \in {q \in Rng(Doc.events[e].keys) \X Rng(Doc.events[e].keys) :
                     /\ Doc.res[q[1]] # 0 /\ Doc.res[q[2]] # 0 /\ q[1] < q[2]
                     /\ (~Eq(Doc.res[q[1]], Doc.res[q[2]]) \/ ~Eq(Doc.res[q[2]], Doc.res[q[1]])
                         \/ O(Doc.res[q[1]]).hash # O(Doc.res[q[2]]).hash)}} :
         e \in {x \in 1..Len(Doc.events) : Doc.events[x].kind = "equiv"}}
EqualImpliesHash ==
  {[a |-> O(p[1]).str, acls |-> O(p[1]).cls, b |-> O(p[2]).str, bcls |-> O(p[2]).cls] :
     p \in {q \in Reached \X Reached : Eq(q[1], q[2]) /\ (O(q[1]).hash # O(q[2]).hash \/ O(q[1]).hash = 0)}}
PrintRoundTrip ==
  IF Doc.engine = "polars" THEN {}
  ELSE {[type |-> O(o).cls, str |-> O(o).str, back |-> IF O(o).resprint = 0 THEN "unresolvable" ELSE O(O(o).resprint).cls] :
          o \in {a \in Reached : O(a).primitive /\ ~Eq(O(a).resprint, a)}}
SelfCheck == {[type |-> O(o).cls, str |-> O(o).str] : o \in {a \in Reached : ~Chk(a, a)}}
CrossKind ==
  {[a |-> O(p[1]).str, acls |-> O(p[1]).cls, b |-> O(p[2]).str, bcls |-> O(p[2]).cls] :
     p \in {q \in Reached \X ObjIds : O(q[1]).physical /\ Chk(q[1], q[2]) /\ NSig(q[1]) # NSig(q[2])}}
(* the abstract pandera classes and attributes a type carries agree with the native dtype it boxes *)
DeclaredIsNative ==
  {[type |-> O(o).cls, str |-> O(o).str, declared |-> <<O(o).dkind, O(o).dsigned, O(o).dbits>>, native |-> NSig(o)] :
     o \in {a \in Reached : /\ O(a).physical /\ O(a).dkind # "none"
                           /\ \/ O(a).dkind # O(a).nkind
                              \/ Numeric(a) /\ (O(a).dsigned # O(a).nsigned \/ O(a).dbits # O(a).nbits)}}

Laws == << <<"RegistryIsHistory", RegistryIsHistory>>, <<"ResolutionConforms", ResolutionConforms>>,
           <<"EquivalentsNotSplit", splits>>, <<"Resolves", Resolves>>, <<"Idempotent", Idempotent>>,
           <<"EquivalentsEqual", EquivalentsEqual>>, <<"EqualImpliesHash", EqualImpliesHash>>,
           <<"PrintRoundTrip", PrintRoundTrip>>, <<"SelfCheck", SelfCheck>>, <<"CrossKind", CrossKind>>,
           <<"DeclaredIsNative", DeclaredIsNative>> >>

Emit ==
  /\ pc = "params" =>
       \A p \in ParamVectors : PrintT(ToJson([kind |-> "param", p |-> p]))
  /\ pc = "resolved" =>
       /\ PrintT(ToJson([kind |-> "table", engine |-> Doc.engine, keys |-> Len(Doc.keys), types |-> Len(Doc.objs),
                         events |-> Len(Doc.events), pairs |-> Len(Doc.objs) * Len(Doc.objs),
                         accepted |-> Cardinality({k \in KeyIds : Accepted(k)}),
                         modelled |-> Cardinality({k \in KeyIds : ModelCls(k) # "fallback"}),
                         physical |-> Cardinality({o \in ObjIds : O(o).physical}),
                         primitive |-> Cardinality({o \in ObjIds : O(o).primitive}),
                         reached |-> Cardinality(Reached)]))
       /\ \A i \in 1..Len(Laws) :
            PrintT(ToJson([kind |-> "law", engine |-> Doc.engine, law |-> Laws[i][1],
                           bad |-> Laws[i][2], count |-> Cardinality(Laws[i][2])]))
=============================================================================
