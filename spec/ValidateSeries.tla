--------------------------- MODULE ValidateSeries ---------------------------
(***************************************************************************)
(* SeriesSchema.validate (api/pandas/array.py) on top of                     *)
(* ArraySchemaBackend.validate (backends/pandas/array.py) and, when the       *)
(* schema has an index, IndexBackend.validate (backends/pandas/components.py).*)
(*                                                                           *)
(* The run is a record `st`; every stage of the code is an operator           *)
(* st -> st (Preprocess, SetDefault, CoerceDtype, CheckName, ...), so that    *)
(*   - the state machine takes one stage per step (one named action each),    *)
(*   - a whole run is the function Run(st) = iterate Step until "done",       *)
(*     which hyper-properties use to compare two runs (lazy vs eager, ideal   *)
(*     vs shipped code, first vs second validation).                          *)
(*                                                                           *)
(* st = [S        the schema: field schema + [coerce, default, drop, index]   *)
(*       inp0     the caller's object at call time                            *)
(*       lazy, inplace                                                        *)
(*       dev      deviations of the shipped code that are switched on         *)
(*       inp      the caller's object as it is now                            *)
(*       obj      the working object                                          *)
(*       aliased  obj and inp are the same object                             *)
(*       errs     ErrorHandler: collected errors                              *)
(*       raised   an eager error has been raised                              *)
(*       pc, ci   control state, next check index                             *)
(*       out]     outcome of the call                                         *)
(***************************************************************************)
EXTENDS Parse

NoOut == [kind |-> "none"]
NoIndexS == [none |-> TRUE]
HasIndexS(schema) == "dtype" \in DOMAIN schema.index

(* head / tail / sample: the rows the data-level checks are shown.               *)
(* sel = [all |-> TRUE] or [all |-> FALSE, pos |-> positions in the order         *)
(* head ++ tail ++ sample]; the sampled positions are an environment input.       *)
SelAll == [all |-> TRUE, pos |-> <<>>, head |-> -1, tail |-> -1, sample |-> 0, rs |-> 0]
RECURSIVE DedupByLabel(_, _)
DedupByLabel(seq, idx) ==      \* keep the first selected row of every index label
  IF seq = <<>> THEN <<>>
  ELSE LET r == DedupByLabel(SubSeq(seq, 1, Len(seq) - 1), idx)
       IN IF \E j \in 1..Len(r) : idx[r[j]] = idx[seq[Len(seq)]] THEN r ELSE Append(r, seq[Len(seq)])
RECURSIVE DedupByPos(_)
DedupByPos(seq) ==             \* keep the first occurrence of every position
  IF seq = <<>> THEN <<>>
  ELSE LET r == DedupByPos(SubSeq(seq, 1, Len(seq) - 1))
       IN IF seq[Len(seq)] \in Range(r) THEN r ELSE Append(r, seq[Len(seq)])
(* Ideal: every selected row once (by position).  Deviation SubsampleDedupByLabel: *)
(* rows are de-duplicated by index LABEL, so a selected row that shares its label   *)
(* with an earlier selected row is never checked.                                   *)
Selected(sel, idx, dev) ==
  IF sel.all THEN [ i \in 1..Len(idx) |-> i ]
  ELSE IF "SubsampleDedupByLabel" \in dev THEN DedupByLabel(sel.pos, idx)
       ELSE DedupByPos(sel.pos)
SubField(f, seq) == [f EXCEPT !.cells = [ j \in 1..Len(seq) |-> f.cells[seq[j]] ],
                              !.idx   = [ j \in 1..Len(seq) |-> f.idx[seq[j]] ]]
HeadTailSample(n, h, t, P) ==      \* -1 = option not given
  (IF h >= 0 THEN [ i \in 1..(IF h < n THEN h ELSE n) |-> i ] ELSE <<>>)
   \o (IF t >= 0 THEN [ i \in 1..(IF t < n THEN t ELSE n) |-> n - (IF t < n THEN t ELSE n) + i ] ELSE <<>>)
   \o P

StartSel(schema, field, lz, ip, dv, sl) ==
  [S |-> schema, inp0 |-> field, lazy |-> lz, inplace |-> ip, dev |-> dv, sel |-> sl,
   inp |-> field, obj |-> field, aliased |-> TRUE,
   errs |-> <<>>, raised |-> FALSE, pc |-> "preprocess", ci |-> 1, out |-> NoOut]
Start(schema, field, lz, ip, dv) == StartSel(schema, field, lz, ip, dv, SelAll)
(* the object the core checks are shown *)
View(st) == IF st.sel.all THEN st.obj ELSE SubField(st.obj, Selected(st.sel, st.obj.idx, st.dev))

(* ErrorHandler.collect_error: raise at once when eager, append when lazy *)
Collect(st, new) ==
  IF new = <<>> \/ st.raised THEN st
  ELSE IF st.lazy THEN [st EXCEPT !.errs = @ \o new]
       ELSE [st EXCEPT !.errs = <<new[1]>>, !.raised = TRUE]

(* every in-place stage goes through Write: it reaches the caller's object *)
(* exactly when the working object is the caller's object                   *)
Write(st, new) == [st EXCEPT !.obj = new, !.inp = IF st.aliased THEN new ELSE @]
Goto(st, next) == [st EXCEPT !.pc = next]

(* failure cases carry the index label of the row (positions -> labels) *)
L(st, es) == Labelled(es, View(st).idx)

Preprocess(st) ==                  \* check_obj if inplace else check_obj.copy()
  IF st.S.drop /\ ~st.lazy           \* drop_invalid_rows requires lazy=True
  THEN [Goto(st, "done") EXCEPT !.out = [kind |-> "SchemaDefinitionError"]]
  ELSE Goto([st EXCEPT !.aliased = st.inplace, !.obj = st.inp], "default")

SetDefault(st) ==                  \* check_obj = check_obj.fillna(default): a new object
  Goto(IF IsNull(st.S.default) THEN st
       ELSE [st EXCEPT !.obj = FillDefault(st.S.default, @), !.aliased = FALSE], "coerce")

CoerceDtype(st) ==                 \* check_obj = try_coerce(check_obj): a new object, or an error
  Goto(IF st.S.coerce /\ st.S.dtype # "none" /\ ~st.raised
       THEN LET es == Labelled(CoerceErrors(st.S.dtype, st.obj), st.obj.idx)
            IN Collect([st EXCEPT !.obj = CoerceField(st.S.dtype, @),
                                  !.aliased = IF es = <<>> THEN FALSE ELSE @], es)
       ELSE st, "name")

CheckName(st)     == Goto(Collect(st, L(st, CoreName(st.S, View(st)))), "nullable")
CheckNullable(st) == Goto(Collect(st, L(st, CoreNullable(st.S, View(st)))), "unique")
CheckUnique(st)   ==
  Goto(Collect(st, L(st, CoreUniqueWith(st.S, View(st), "DuplicateNullsNotReported" \in st.dev))), "dtype")
CheckDtype(st)    == Goto(Collect(st, L(st, CoreDtype(st.S, View(st)))), "checks")

RunCheck(st) ==                    \* one user check per step
  [Collect(st, L(st, CoreCheck(st.S, View(st), st.ci))) EXCEPT !.ci = st.ci + 1]

Raise(st) == [kind |-> IF st.lazy THEN "SchemaErrors" ELSE "SchemaError", errors |-> st.errs]

(* drop_invalid_rows: remove the rows named by the failure cases (by index label;   *)
(* C11 assumes a unique index).  Ideal: a violation that is not attributable to rows *)
(* is still raised.  Deviation DropRowsIndexesScalarFailure (as shipped): the code    *)
(* indexes the scalar failure case and dies with TypeError.                           *)
CaseLabels(errs) == UNION { { errs[e].cases[j][1] : j \in 1..Len(errs[e].cases) } : e \in 1..Len(errs) }
HasScalarError(errs) == \E e \in 1..Len(errs) : errs[e].scalar
DropRowsOfField(f, labels) ==
  SubField(f, SetToSortedSeq({ i \in 1..Len(f.idx) : f.idx[i] \notin labels }))
DropOutcome(st, dropper(_, _)) ==
  IF HasScalarError(st.errs)
  THEN IF "DropRowsIndexesScalarFailure" \in st.dev THEN [kind |-> "Leak:TypeError"] ELSE Raise(st)
  ELSE [kind |-> "ok", returned |-> dropper(st.obj, CaseLabels(st.errs))]

ValuesDone(st) ==                  \* end of ArraySchemaBackend.validate
  IF st.errs # <<>> /\ st.S.drop /\ st.lazy
  THEN LET o == DropOutcome(st, DropRowsOfField)
       IN IF o.kind = "ok" /\ HasIndexS(st.S)
          THEN Goto([st EXCEPT !.obj = o.returned, !.aliased = FALSE, !.errs = <<>>], "index_coerce")
          ELSE [Goto(st, "done") EXCEPT !.out = o]
  ELSE IF st.errs # <<>> THEN [Goto(st, "done") EXCEPT !.out = Raise(st)]
  ELSE IF HasIndexS(st.S) THEN Goto(st, "index_coerce")
       ELSE [Goto(st, "done") EXCEPT !.out = [kind |-> "ok", returned |-> st.obj]]

(* index.validate(X): the shipped code passes the ORIGINAL check_obj            *)
(* (deviation SeriesIndexValidatesOriginal), the intended design the validated  *)
(* object.  IndexBackend.validate assigns X.index in place and returns X.       *)
IdxField(f) == [name |-> f.idxname, pd |-> f.idxpd, cells |-> f.idx, idx |-> f.idx]

IndexCoerce(st) ==
  LET onOriginal == "SeriesIndexValidatesOriginal" \in st.dev
      x    == IF onOriginal THEN st.inp ELSE st.obj
      r    == CoerceCells(st.S.index.dtype, x.idx)
      newx == IF st.S.index.coerce /\ st.S.index.dtype # "none" /\ r.ok
              THEN [x EXCEPT !.idx = r.cells, !.idxpd = Phys(st.S.index.dtype)] ELSE x
      es   == IF st.S.index.coerce THEN Labelled(CoerceErrors(st.S.index.dtype, IdxField(x)), x.idx) ELSE <<>>
      st1  == IF onOriginal
              THEN [st EXCEPT !.inp = newx, !.obj = newx, !.aliased = TRUE]   \* the caller's object is written and returned
              ELSE Write(st, newx)
  IN Goto(Collect(st1, es), "index_check")

(* Ideal: index failure cases carry the row label.  Deviation                     *)
(* IndexFailureCasesByPosition: they carry the row position (the index is checked  *)
(* as index.to_series().reset_index(drop=True)).                                   *)
IndexCheck(st) ==
  LET labels == IF "IndexFailureCasesByPosition" \in st.dev
                THEN [ i \in 1..Len(st.obj.idx) |-> iv(i - 1) ] ELSE st.obj.idx
      (* deviation IndexCoercionReportedTwice: the index values are validated by the array back end with  *)
      (* coerce still on, so a failed index coercion is collected a second time (by position)             *)
      again == IF "IndexCoercionReportedTwice" \in st.dev /\ st.S.index.coerce
               THEN Labelled(CoerceErrors(st.S.index.dtype, IdxField(st.obj)), [ i \in 1..Len(st.obj.idx) |-> iv(i - 1) ])
               ELSE <<>>
      (* with head / tail / sample the index component is shown the selected rows only; the index is turned into a  *)
      (* series labelled by POSITION before it is subsampled, so the selection is by position also as shipped       *)
      pos  == IF st.sel.all THEN [ i \in 1..Len(st.obj.idx) |-> i ] ELSE DedupByPos(st.sel.pos)
      sub  == IF st.sel.all THEN st.obj ELSE SubField(st.obj, pos)
      labs == [ k \in 1..Len(pos) |-> labels[pos[k]] ]
  IN Goto(Collect(st, again \o Labelled(FieldErrors(st.S.index, IdxField(sub)), labs)), "index_done")

IndexDone(st) ==
  [Goto(st, "done") EXCEPT !.out = IF st.errs = <<>> THEN [kind |-> "ok", returned |-> st.obj] ELSE Raise(st)]

Step(st) ==
  CASE st.pc = "preprocess"   -> Preprocess(st)
    [] st.pc = "default"      -> SetDefault(st)
    [] st.pc = "coerce"       -> CoerceDtype(st)
    [] st.pc = "name"         -> CheckName(st)
    [] st.pc = "nullable"     -> CheckNullable(st)
    [] st.pc = "unique"       -> CheckUnique(st)
    [] st.pc = "dtype"        -> CheckDtype(st)
    [] st.pc = "checks"       -> IF st.ci <= Len(st.S.checks) THEN RunCheck(st) ELSE ValuesDone(st)
    [] st.pc = "index_coerce" -> IndexCoerce(st)
    [] st.pc = "index_check"  -> IndexCheck(st)
    [] st.pc = "index_done"   -> IndexDone(st)

RECURSIVE Run(_)
Run(st) == IF st.pc = "done" THEN st ELSE Run(Step(st))

---------------------------------------------------------------------------
(* The state machine: one named action per stage *)
VARIABLE st
At(p) == st.pc = p
APreprocess    == At("preprocess")   /\ st' = Preprocess(st)
ASetDefault    == At("default")      /\ st' = SetDefault(st)
ACoerceDtype   == At("coerce")       /\ st' = CoerceDtype(st)
ACheckName     == At("name")         /\ st' = CheckName(st)
ACheckNullable == At("nullable")     /\ st' = CheckNullable(st)
ACheckUnique   == At("unique")       /\ st' = CheckUnique(st)
ACheckDtype    == At("dtype")        /\ st' = CheckDtype(st)
ARunCheck      == At("checks") /\ st.ci <= Len(st.S.checks) /\ st' = RunCheck(st)
AValuesDone    == At("checks") /\ st.ci > Len(st.S.checks)  /\ st' = ValuesDone(st)
AIndexCoerce   == At("index_coerce") /\ st' = IndexCoerce(st)
AIndexCheck    == At("index_check")  /\ st' = IndexCheck(st)
AIndexDone     == At("index_done")   /\ st' = IndexDone(st)
Next == APreprocess \/ ASetDefault \/ ACoerceDtype \/ ACheckName \/ ACheckNullable \/ ACheckUnique
          \/ ACheckDtype \/ ARunCheck \/ AValuesDone \/ AIndexCoerce \/ AIndexCheck \/ AIndexDone

---------------------------------------------------------------------------
(* Properties (asserted for the ideal design, st.dev = {}) *)
Done == st.pc = "done"
Ideal == st.dev = {}
NoParsing(schema) == ~schema.coerce /\ IsNull(schema.default) /\ ~schema.drop
                     /\ (HasIndexS(schema) => ~schema.index.coerce)
(* the schema with every parsing option switched off *)
Strip(schema) == [schema EXCEPT !.coerce = FALSE, !.default = NA, !.drop = FALSE,
                                !.index = IF HasIndexS(schema) THEN [@ EXCEPT !.coerce = FALSE] ELSE @]
SeriesSat(schema, f) ==
  /\ FieldSat(schema, f)
  /\ HasIndexS(schema) => FieldSat(schema.index, IdxField(f))

(* C01: the verdict is the declared meaning; identity on success *)
VerdictEqualsSemantics ==
  Done /\ Ideal /\ NoParsing(st.S) => ((st.out.kind = "ok") <=> SeriesSat(st.S, st.inp0))
IdentityOnSuccess == Done /\ Ideal /\ st.out.kind = "ok" /\ NoParsing(st.S) => st.out.returned = st.inp0

(* C02: lazy collects every error, eager raises the first of them *)
AllErrors(s) == Labelled(FieldErrorsIdeal(s.S, s.inp0), s.inp0.idx)
ReportExact ==
  Done /\ Ideal /\ st.out.kind # "ok" /\ NoParsing(st.S) /\ ~HasIndexS(st.S) =>
     IF st.lazy THEN st.out.errors = AllErrors(st) ELSE st.out.errors = <<AllErrors(st)[1]>>
LazyEagerAgree ==
  Done /\ Ideal =>
     LET other == Run(StartSel(st.S, st.inp0, ~st.lazy, st.inplace, st.dev, st.sel))
         lz == IF st.lazy THEN st ELSE other
         eg == IF st.lazy THEN other ELSE st
     IN /\ (lz.out.kind = "ok") <=> (eg.out.kind = "ok")
        /\ eg.out.kind # "ok" => \E e \in 1..Len(lz.out.errors) : lz.out.errors[e] = eg.out.errors[1]
CasesAreViolations ==
  Done /\ Ideal /\ st.out.kind = "SchemaErrors" /\ NoParsing(st.S) /\ ~HasIndexS(st.S) =>
    \A e \in 1..Len(st.out.errors) :
       LET er == st.out.errors[e] IN
       er.reason = "DATAFRAME_CHECK" /\ ~er.scalar /\ st.S.checks[er.ci + 1].nfc = 0 =>
          LET c == st.S.checks[er.ci + 1] IN
          /\ \A j \in 1..Len(er.cases) : ~CellOK(c, er.cases[j][2])
          /\ \A i \in 1..Len(st.inp0.cells) :
                (~CellOK(c, st.inp0.cells[i]) /\ ~(c.ina /\ IsNull(st.inp0.cells[i])))
                   => \E j \in 1..Len(er.cases) : er.cases[j] = <<st.inp0.idx[i], st.inp0.cells[i]>>

(* C03: whatever is returned conforms to the schema with parsing switched off, *)
(* and validating it again returns it unchanged                                *)
ParsePostcondition == Done /\ Ideal /\ st.out.kind = "ok" => SeriesSat(Strip(st.S), st.out.returned)
ParseFixpoint ==
  Done /\ Ideal /\ st.out.kind = "ok" =>
     LET again == Run(Start(st.S, st.out.returned, st.lazy, FALSE, st.dev))
     IN again.out.kind = "ok" /\ again.out.returned = st.out.returned

(* C20: validating with head/tail/sample reaches the verdict of validating the  *)
(* explicitly selected rows, and returns the whole object                        *)
SubsampleIsSubframe ==
  Done /\ Ideal /\ ~st.sel.all /\ NoParsing(st.S) /\ ~HasIndexS(st.S) =>
     LET sub == SubField(st.inp0, Selected(st.sel, st.inp0.idx, {}))
         expl == Run(Start(st.S, sub, st.lazy, FALSE, {}))
     IN /\ (st.out.kind = "ok") <=> (expl.out.kind = "ok")
        /\ st.out.kind = "ok" => st.out.returned = st.inp0
SelectAllIsNoOption ==
  Done /\ Ideal /\ ~st.sel.all /\ Len(Selected(st.sel, st.inp0.idx, {})) = Len(st.inp0.idx) =>
     (st.out.kind = "ok") <=> (Run(Start(st.S, st.inp0, st.lazy, st.inplace, {})).out.kind = "ok")

(* C11: with drop_invalid_rows the result holds exactly the rows on which every  *)
(* row-level constraint holds, in their original order                            *)
RowOK(schema, f, i) ==       \* row i satisfies the row-level constraints of the field schema
  /\ schema.nullable \/ ~IsNull(f.cells[i])
  /\ ~schema.unique \/ i \notin DupReported(schema.report, f.cells)
  /\ \A k \in 1..Len(schema.checks) :
        schema.checks[k].warn \/ schema.checks[k].k = "unique_values_eq"
          \/ (IsNull(f.cells[i]) /\ schema.checks[k].ina) \/ CellOK(schema.checks[k], f.cells[i])
DropIsExact ==
  Done /\ Ideal /\ st.S.drop /\ st.lazy /\ st.out.kind = "ok" /\ ~HasIndexS(st.S) /\ ~st.S.coerce
    /\ IsNull(st.S.default) =>
     st.out.returned = SubField(st.inp0, SetToSortedSeq({ i \in 1..Len(st.inp0.idx) : RowOK(st.S, st.inp0, i) }))

(* C04: the caller's object is never written without inplace *)
NoCallerMutation == Ideal /\ ~st.inplace => st.inp = st.inp0
=============================================================================
