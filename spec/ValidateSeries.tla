--------------------------- MODULE ValidateSeries ---------------------------
(***************************************************************************)
(* State machine of SeriesSchema.validate / ArraySchemaBackend.validate     *)
(* (pandera/backends/pandas/array.py): one action per stage of the code,    *)
(* the ErrorHandler's raise-or-collect switch, and the copy-or-alias         *)
(* relation between the caller's object and the working object.             *)
(***************************************************************************)
EXTENDS Field

CONSTANTS Schemas,       \* set of field schemas explored
          Fields,        \* set of fields (Series) explored
          Modes          \* subset of BOOLEAN: values of lazy
VARIABLES S, inp0, lazy, inplace,   \* the call
          inp,           \* the caller's object as it is now
          obj,           \* the working object
          aliased,       \* obj and inp are the same object
          errs,          \* ErrorHandler: collected errors
          raised,        \* an eager error has been raised
          pc, ci,        \* control state, next check index
          out            \* outcome of the call
vars == <<S, inp0, lazy, inplace, inp, obj, aliased, errs, raised, pc, ci, out>>

NoOut == [kind |-> "none"]

Init == /\ S \in Schemas
        /\ inp0 \in Fields
        /\ lazy \in Modes
        /\ inplace = FALSE
        /\ inp = inp0 /\ obj = inp0 /\ aliased = TRUE
        /\ errs = <<>> /\ raised = FALSE
        /\ pc = "preprocess" /\ ci = 1 /\ out = NoOut

(* ErrorHandler.collect_error: raise at once when eager, append when lazy *)
Collect(new) ==
  IF new = <<>> \/ raised THEN UNCHANGED <<errs, raised>>
  ELSE IF lazy THEN errs' = errs \o new /\ UNCHANGED raised
       ELSE errs' = <<new[1]>> /\ raised' = TRUE

Call == <<S, inp0, lazy, inplace>>

Preprocess ==                      \* check_obj if inplace else check_obj.copy()
  /\ pc = "preprocess"
  /\ aliased' = inplace /\ obj' = inp
  /\ pc' = "name"
  /\ UNCHANGED <<Call, inp, errs, raised, ci, out>>

Stage(here, next, new) ==          \* a core check: skipped once an eager error was raised
  /\ pc = here
  /\ IF raised THEN UNCHANGED <<errs, raised>> ELSE Collect(new)
  /\ pc' = next
  /\ UNCHANGED <<Call, inp, obj, aliased, ci, out>>

CheckName     == Stage("name", "nullable", CoreName(S, obj))
CheckNullable == Stage("nullable", "unique", CoreNullable(S, obj))
CheckUnique   == Stage("unique", "dtype", CoreUnique(S, obj))
CheckDtype    == Stage("dtype", "checks", CoreDtype(S, obj))

RunCheck ==                        \* one user check per step
  /\ pc = "checks" /\ ci <= Len(S.checks)
  /\ IF raised THEN UNCHANGED <<errs, raised>> ELSE Collect(CoreCheck(S, obj, ci))
  /\ ci' = ci + 1
  /\ UNCHANGED <<Call, inp, obj, aliased, pc, out>>

Finish ==
  /\ pc = "checks" /\ ci > Len(S.checks)
  /\ pc' = "done"
  /\ out' = IF errs = <<>> THEN [kind |-> "ok", returned |-> obj]
            ELSE [kind |-> IF lazy THEN "SchemaErrors" ELSE "SchemaError",
                  errors |-> Labelled(errs, obj.idx)]
  /\ UNCHANGED <<Call, inp, obj, aliased, errs, raised, ci>>

Next == Preprocess \/ CheckName \/ CheckNullable \/ CheckUnique \/ CheckDtype
          \/ RunCheck \/ Finish
Spec == Init /\ [][Next]_vars

---------------------------------------------------------------------------
(* Properties *)
Done == pc = "done"

(* C01: the verdict is the declared meaning; identity on success *)
VerdictEqualsSemantics == Done => ((out.kind = "ok") <=> FieldSat(S, inp0))
IdentityOnSuccess == Done /\ out.kind = "ok" => out.returned = inp0

(* C02: lazy collects every error, eager raises the first of them *)
AllErrors == Labelled(FieldErrors(S, inp0), inp0.idx)
ReportExact ==
  Done /\ out.kind # "ok" =>
     IF lazy THEN out.errors = AllErrors ELSE out.errors = <<AllErrors[1]>>
(* every reported cell really violates its constraint, and every violating *)
(* cell is reported (n_failure_cases = None)                                *)
CasesAreViolations ==
  Done /\ out.kind = "SchemaErrors" =>
    \A e \in 1..Len(out.errors) :
       LET er == out.errors[e] IN
       er.reason = "DATAFRAME_CHECK" /\ ~er.scalar /\ S.checks[er.ci + 1].nfc = 0 =>
          LET c == S.checks[er.ci + 1] IN
          /\ \A j \in 1..Len(er.cases) : ~CellOK(c, er.cases[j][2])
          /\ \A i \in 1..Len(inp0.cells) :
                (~CellOK(c, inp0.cells[i]) /\ ~(c.ina /\ IsNull(inp0.cells[i])))
                   => \E j \in 1..Len(er.cases) : er.cases[j] = <<inp0.idx[i], inp0.cells[i]>>

(* C04: the caller's object is never written without inplace *)
NoCallerMutation == ~inplace => inp = inp0
=============================================================================
