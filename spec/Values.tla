------------------------------ MODULE Values ------------------------------
(***************************************************************************)
(* The abstract value universe shared by every other module.               *)
(*                                                                         *)
(* TLC cannot compare a string with an integer, has no floats and only     *)
(* 32-bit integers, so a cell value is a pair <<tag, payload>> with an      *)
(* integer payload:                                                        *)
(*    <<"i", n>>   the integer n                                           *)
(*    <<"f", h>>   the float h/2          (1.5 is <<"f", 3>>)               *)
(*    <<"s", k>>   the k-th string of StrTable                             *)
(*    <<"b", 0|1>> a boolean                                                *)
(*    <<"na", 0>>  a missing value (NaN / None / null)                     *)
(* Strings are sequences of one-character strings; regular expressions are *)
(* a small AST kept in a table and referred to by index, so that check      *)
(* records never contain values TLC cannot compare.                        *)
(***************************************************************************)
EXTENDS Integers, Sequences, FiniteSets, TLC

NA == <<"na", 0>>
iv(n) == <<"i", n>>
fv(h) == <<"f", h>>
sv(k) == <<"s", k>>
bv(b) == <<"b", b>>

Tag(v) == v[1]
IsNull(v) == v[1] = "na"
IsNumeric(v) == v[1] \in {"i", "f"}
IsStr(v) == v[1] = "s"
IsBool(v) == v[1] = "b"

(* numeric value in halves; booleans count as 0/1 the way pandas does *)
Halves(v) == IF v[1] = "f" THEN v[2] ELSE 2 * v[2]

(* equality as the dataframe libraries see it: 1 == 1.0, a null equals nothing *)
SameKind(v, w) == \/ (IsNumeric(v) /\ IsNumeric(w))
                  \/ (v[1] = w[1])
ValEq(v, w) == /\ ~IsNull(v) /\ ~IsNull(w)
               /\ SameKind(v, w)
               /\ IF IsNumeric(v) THEN Halves(v) = Halves(w) ELSE v[2] = w[2]

(* identity used for duplicate detection: two nulls ARE duplicates of each *)
(* other (PINNED: pandas duplicated() and polars is_duplicated())          *)
DupEq(v, w) == IF IsNull(v) \/ IsNull(w) THEN IsNull(v) /\ IsNull(w)
               ELSE ValEq(v, w)

NumLT(v, w) == Halves(v) < Halves(w)
NumLE(v, w) == Halves(v) <= Halves(w)

---------------------------------------------------------------------------
(* Strings *)
StrTable == << <<>>,                 \* 1  ""
               <<"a">>,              \* 2  "a"
               <<"b">>,              \* 3  "b"
               <<"a","b">>,          \* 4  "ab"
               <<"b","a">>,          \* 5  "ba"
               <<"x","b">>,          \* 6  "xb"
               <<"a","a">>,          \* 7  "aa"
               <<"a","b","x">>,      \* 8  "abx"
               <<"0">>,              \* 9  "0"   numeric strings (coercion)
               <<"1">>,              \* 10 "1"
               <<"2">> >>            \* 11 "2"
Str(v) == StrTable[v[2]]

IsPrefix(p, s) == Len(p) <= Len(s) /\ \A i \in 1..Len(p) : s[i] = p[i]
IsSuffix(p, s) == Len(p) <= Len(s) /\ \A i \in 1..Len(p) : s[Len(s) - Len(p) + i] = p[i]

---------------------------------------------------------------------------
(* Regular expressions: AST and a matcher (set of reachable end positions) *)
Lit(c)    == [op |-> "lit", c |-> c]
Dot       == [op |-> "dot"]
Cat(l, r) == [op |-> "cat", l |-> l, r |-> r]
Alt(l, r) == [op |-> "alt", l |-> l, r |-> r]
Star(l)   == [op |-> "star", l |-> l]
Opt(l)    == [op |-> "opt", l |-> l]
Bol       == [op |-> "bol"]
Eol       == [op |-> "eol"]

RECURSIVE Ends(_, _, _), StarClose(_, _, _)
Ends(re, s, P) ==
  CASE re.op = "lit"  -> { p + 1 : p \in { q \in P : q <= Len(s) /\ s[q] = re.c } }
    [] re.op = "dot"  -> { p + 1 : p \in { q \in P : q <= Len(s) } }
    [] re.op = "cat"  -> Ends(re.r, s, Ends(re.l, s, P))
    [] re.op = "alt"  -> Ends(re.l, s, P) \cup Ends(re.r, s, P)
    [] re.op = "star" -> StarClose(re.l, s, P)
    [] re.op = "opt"  -> P \cup Ends(re.l, s, P)
    [] re.op = "bol"  -> { p \in P : p = 1 }
    [] re.op = "eol"  -> { p \in P : p = Len(s) + 1 }
StarClose(re, s, P) ==
  LET Q == P \cup Ends(re, s, P) IN IF Q = P THEN P ELSE StarClose(re, s, Q)

(* re.match: anchored at the start; re.search: anywhere; fullmatch: both ends *)
ReMatch(re, s)     == Ends(re, s, {1}) # {}
ReSearch(re, s)    == Ends(re, s, 1..(Len(s) + 1)) # {}
ReFullMatch(re, s) == (Len(s) + 1) \in Ends(re, s, {1})

ReTable == << Lit("a"),                              \* 1  a
              Alt(Lit("a"), Lit("b")),               \* 2  a|b     (top-level alternation)
              Cat(Lit("a"), Star(Lit("b"))),         \* 3  ab*
              Cat(Bol, Cat(Lit("a"), Eol)),          \* 4  ^a$
              Cat(Dot, Lit("b")),                    \* 5  .b
              Cat(Lit("a"), Opt(Lit("b"))),          \* 6  ab?
              Cat(Alt(Lit("a"), Lit("x")), Lit("b")),\* 7  (?:a|x)b
              Cat(Lit("b"), Eol),                    \* 8  b$
              Alt(Cat(Bol, Lit("a")), Lit("b")),     \* 9  ^a|b   (what polars str_matches makes of a|b)
              Eol,                                   \* 10 $      (matches only the empty string with re.match)
              Lit("0") >>                            \* 11 0      (matches the integer column label 0 after astype(str))
Re(v) == ReTable[v[2]]
rv(k) == <<"re", k>>

---------------------------------------------------------------------------
(* small sequence helpers *)
Range(f) == { f[i] : i \in DOMAIN f }
SelectIdx(s, Test(_)) == { i \in 1..Len(s) : Test(i) }
RECURSIVE SetToSortedSeq(_)
SetToSortedSeq(S) == IF S = {} THEN <<>>
                     ELSE LET m == CHOOSE x \in S : \A y \in S : x <= y
                          IN <<m>> \o SetToSortedSeq(S \ {m})
SubSeqAt(s, idxs) == [ j \in 1..Len(idxs) |-> s[idxs[j]] ]
=============================================================================
