---------------------------- MODULE Trace_Config ----------------------------
(***************************************************************************)
(* Trace validation (code -> spec) for Config.tla.                          *)
(* The harness records, from real executions, one event per linearization   *)
(* point of pandera.config.config_context (after the override / after the   *)
(* restore) with the option arguments and the resulting _CONTEXT_CONFIG,     *)
(* plus a marker in front of every polars validate call.  Each recorded      *)
(* execution must be a behaviour of Config!Spec: the logged fields are bound  *)
(* to the primed variables, everything else is left to the actions.          *)
(* Thousands of traces are validated per TLC run: a trace is chosen in Init.  *)
(***************************************************************************)
EXTENDS Config, Json, IOUtils

Traces == JsonDeserialize(IOEnv.TRACE_FILE)

VARIABLES tid, l, pend
tvars == <<vars, tid, l, pend>>
Tr == Traces[tid]

Cfg(j) == [enabled |-> j.enabled, depth |-> j.depth, cache |-> j.cache, keep |-> j.keep]
Opts(j) == [enabled |-> j.enabled, depth |-> j.depth, cache |-> j.cache, keep |-> j.keep]

TInit == /\ tid \in 1..Len(Traces)
         /\ l = 2 /\ pend = "none"
         /\ env = [enabled |-> "unset", depth |-> "unset", cache |-> "unset", keep |-> "unset"]
         /\ global = Cfg(Tr[1].global)
         /\ ctx = Cfg(Tr[1].ctx)
         /\ stack = <<>> /\ ghost = <<>> /\ hist = <<>> /\ obsv = <<>>

IsEvent(e) == /\ l <= Len(Tr) /\ Tr[l].ev = e /\ l' = l + 1 /\ tid' = tid
              /\ Cfg(Tr[l].global) = global

(* unlogged environment step: test code assigns pandera.config.CONFIG directly.  *)
(* Silent, bounded by the trace: enabled only when the next event logs another    *)
(* global configuration.                                                          *)
SilentSetGlobal ==
  /\ l <= Len(Tr) /\ Cfg(Tr[l].global) # global
  /\ global' = Cfg(Tr[l].global)
  /\ UNCHANGED <<env, ctx, stack, ghost, hist, obsv, tid, l, pend>>

(* reset_config_context(conf) called directly by user code: an API action that     *)
(* sets the context configuration to the logged value                              *)
TraceReset ==
  /\ IsEvent("reset")
  /\ ctx' = Cfg(Tr[l].ctx)
  /\ UNCHANGED <<env, global, stack, ghost, hist, obsv, pend>>

TraceEnter ==
  /\ IsEvent("enter")
  /\ Enter(Opts(Tr[l].opts))
  /\ ctx' = Cfg(Tr[l].ctx)                                 \* logged field bound
  /\ pend # "none" =>                                      \* entered by a polars validate
        Opts(Tr[l].opts) = [enabled |-> None, depth |-> PolarsDepth(pend, ctx, global),
                            cache |-> None, keep |-> None]
  /\ pend' = "none"

TraceExit ==
  /\ IsEvent("exit")
  /\ Exit(Tr[l].exc)
  /\ ctx' = Cfg(Tr[l].ctx)
  /\ pend' = pend

TracePolarsValidate ==
  /\ IsEvent("pv")
  /\ pend' = IF ctx.enabled THEN Tr[l].kind ELSE "none"   \* disabled: validate returns its argument at once
  /\ UNCHANGED vars

TraceNext == TraceEnter \/ TraceExit \/ TracePolarsValidate \/ TraceReset \/ SilentSetGlobal
TraceSpec == TInit /\ [][TraceNext]_tvars

(* acceptance: every event of every trace is explained *)
NotStuck == l <= Len(Tr) => ENABLED TraceNext
(* and the properties hold along every recorded execution *)
TraceSavedIsEntered == stack = ghost
TraceAllClosedMeansInitial == (l > Len(Tr) /\ stack = <<>>) => ctx = Cfg(Tr[1].ctx)
TraceScopedRestore == [][ Len(ghost') < Len(ghost) => ctx' = ghost[Len(ghost)] ]_tvars
=============================================================================
