----------------------------- MODULE MC_History -----------------------------
EXTENDS History, Json
Emit == (Len(hist) = MaxOps) =>
          PrintT(ToJson([kind |-> "history", hist |-> hist, expect |-> obsv, asis |-> sobsv,
                         devs |-> IF obsv # sobsv THEN ShippedDev ELSE {}]))
=============================================================================
