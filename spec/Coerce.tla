------------------------------- MODULE Coerce -------------------------------
(***************************************************************************)
(* C10 - coercion either yields conforming data or names exactly the       *)
(* uncoercible values.                                                      *)
(*                                                                         *)
(* The contract is stated at the level of a container relative to the       *)
(* element-level function coerce_value, as the property does.  The value    *)
(* pool and the sequences over it are defined here and enumerated by TLC    *)
(* (Mode = "enum"); the recorder (vf/rec_coerce.py) builds them as pandas   *)
(* Series / Index / DataFrame columns and polars columns, calls the real    *)
(* coerce_value on every pool element (the table CV) and the real           *)
(* try_coerce on every (type, container), and logs what happened.  In       *)
(* Mode = "judge" every logged execution is a behaviour                     *)
(*      Start -> Coerced -> CoercedAgain                                    *)
(* and TLC evaluates the contract in each of its states.                    *)
(***************************************************************************)
EXTENDS Naturals, Integers, Sequences, FiniteSets, TLC, Json, IOUtils

CONSTANTS Mode, MaxLen, PoolIds, Triples

(* the mixed value pool: ints (one out of the 8-bit range), integral and non-integral floats,    *)
(* numeric, non-numeric and date strings, booleans, a missing value, a timestamp                 *)
Pool == <<
  [vk |-> "int", n |-> 0], [vk |-> "int", n |-> 1], [vk |-> "int", n |-> -1], [vk |-> "int", n |-> 300],
  [vk |-> "float", h |-> 2], [vk |-> "float", h |-> 3],
  [vk |-> "str", s |-> "1", num |-> "int", n |-> 1], [vk |-> "str", s |-> "1.5", num |-> "float", n |-> 0],
  [vk |-> "str", s |-> "a", num |-> "none", n |-> 0], [vk |-> "str", s |-> "2020-01-01", num |-> "date", n |-> 0],
  [vk |-> "bool", b |-> TRUE], [vk |-> "bool", b |-> FALSE],
  [vk |-> "null"], [vk |-> "ts"] >>

TriplesQuick == {<<2, 9, 13>>, <<4, 6, 7>>, <<9, 2, 9>>, <<13, 2, 5>>, <<7, 8, 10>>, <<11, 2, 13>>, <<14, 10, 13>>,
                 <<3, 4, 1>>, <<6, 13, 6>>, <<9, 13, 10>>, <<13, 13, 2>>, <<12, 11, 12>>}
NoTriples == {}
Seqs == UNION {[1..k -> PoolIds] : k \in 1..MaxLen} \cup Triples

---------------------------------------------------------------------------
Log == JsonDeserialize(IOEnv.COERCE_FILE)
Types == Log.types
CV == Log.cv                     \* CV[t][v]: does the real coerce_value(T, pool[v]) return (TRUE) or raise (FALSE)
                                 \* (reported in the evidence; the contract uses E.cv[i], the same question asked
                                 \* about the actual i-th element of the container after pandas' own inference)
Events == Log.events

VARIABLES eid, pc
vars == <<eid, pc>>
E == Events[eid]
T == Types[E.t]

Init == IF Mode = "enum" THEN eid = 0 /\ pc = "enum"
        ELSE eid \in 1..Len(Events) /\ pc = "start"
Coerce1 == pc = "start" /\ pc' = "coerced" /\ UNCHANGED eid
Coerce2 == pc = "coerced" /\ E.outcome = "ok" /\ pc' = "again" /\ UNCHANGED eid
Next == Coerce1 \/ Coerce2
Spec == Init /\ [][Next]_vars

---------------------------------------------------------------------------
(* specification-side predicates *)
IsNull(v) == Pool[v].vk = "null"
HoldsNull(t) == t.flavour # "numpy" \/ t.tk \in {"float", "complex", "datetime", "timedelta", "str", "object"}
InRange(t, n) == /\ (n >= 0 \/ t.signed = 1)
                 /\ (n < 128 \/ t.bits > 8 \/ (t.signed = 0 /\ n < 256))
(* a conservative notion of an exact conversion *)
Exact(t, v) ==
  LET p == Pool[v] IN
  CASE p.vk = "int"   -> (t.tk = "int" /\ InRange(t, p.n)) \/ t.tk \in {"float", "complex"}
    [] p.vk = "float" -> t.tk \in {"float", "complex"} \/ (t.tk = "int" /\ p.h % 2 = 0 /\ InRange(t, p.h \div 2))
    [] p.vk = "str"   -> t.tk = "str" \/ (p.num = "int" /\ t.tk = "int" /\ InRange(t, p.n))
                         \/ (p.num \in {"int", "float"} /\ t.tk = "float")
    [] p.vk = "bool"  -> t.tk = "bool"
    [] p.vk = "ts"    -> t.tk = "datetime"
    [] OTHER          -> FALSE
(* unconvertible by specification, whatever the implementation's element-wise pass says: a text that *)
(* is not the spelling of a number has no value in a numeric type                                      *)
NeverConvertible(t, v) == Pool[v].vk = "str" /\ Pool[v].num = "none" /\ t.tk \in {"int", "float", "complex", "decimal"}
(* the elements that cannot be converted individually: coerce_value raises, or a null for a type   *)
(* that cannot hold nulls                                                                           *)
Fails(i) == IF IsNull(E.c[i]) THEN ~HoldsNull(T) ELSE ~E.cv[i]
FailSet == {i \in 1..Len(E.c) : Fails(i)}
Rng(s) == {s[x] : x \in 1..Len(s)}

(* the contract, clause by clause; each is the set of names of the clauses the execution breaks *)
AfterCoerce ==
  IF E.outcome = "ok" THEN
       (IF E.len_ok THEN {} ELSE {"LengthPreserved"})
       \cup (IF E.labels_ok THEN {} ELSE {"LabelsPreserved"})
       \cup (IF E.check_ok THEN {} ELSE {"ResultPassesOwnCheck"})
       \cup (IF \A i \in 1..Len(E.c) : (~IsNull(E.c[i]) /\ E.cv[i] /\ Exact(T, E.c[i])) => E.same[i]
             THEN {} ELSE {"ExactValuesKept"})
       \cup (IF \A i \in 1..Len(E.c) : (IsNull(E.c[i]) /\ HoldsNull(T)) => E.null_out[i]
             THEN {} ELSE {"NullsStayNull"})
       \cup (IF E.conforming => E.identical THEN {} ELSE {"ConformingIsIdentity"})
       (* an element that cannot be converted individually must not be turned into a missing value behind    *)
       (* the caller's back: that is neither "conforming data" nor "names the uncoercible values"             *)
       \cup (IF \A i \in 1..Len(E.c) : (~IsNull(E.c[i]) /\ ~E.cv[i]) => ~E.null_out[i]
             THEN {} ELSE {"UnconvertibleValueNulled"})
       (* ... and a container holding a text that is no number is never "conforming data" of a numeric type: the call   *)
       (* must raise and name it (this clause does not rely on the implementation's own element-wise oracle)            *)
       \cup (IF \E i \in 1..Len(E.c) : NeverConvertible(T, E.c[i]) THEN {"NonNumericTextAccepted"} ELSE {})
  ELSE IF E.outcome = "parser" THEN
       (IF Rng(E.fc) = FailSet /\ E.fc_vals_ok THEN {} ELSE {"FailureCasesExact"})
       \cup (IF E.conforming THEN {"ConformingIsIdentity"} ELSE {})
  ELSE {"DocumentedChannel"}
AfterAgain == IF E.again = "ok" /\ E.again_same THEN {} ELSE {"CoerceTwiceIsOnce"}
(* counted, not a violation: the container call succeeds although an element cannot be converted   *)
(* individually; the container call fails although every element can (no element to name)           *)
Anomaly ==
  IF E.outcome = "ok" /\ FailSet # {} THEN {"ReturnedDespiteUnconvertibleElement"}
  ELSE IF E.outcome = "parser" /\ FailSet = {} THEN {"RaisedWithoutUnconvertibleElement"}
  ELSE {}

Broken == IF pc = "coerced" THEN AfterCoerce ELSE IF pc = "again" THEN AfterAgain ELSE {}

Emit ==
  /\ pc = "enum" =>
       /\ PrintT(ToJson([kind |-> "pool", pool |-> Pool]))
       /\ \A c \in Seqs : PrintT(ToJson([kind |-> "seq", c |-> c]))
  /\ (pc \in {"coerced", "again"} /\ Broken # {}) =>
       PrintT(ToJson([kind |-> "broken", eid |-> eid, clauses |-> Broken, at |-> pc, failset |-> FailSet,
                      \* which elements are wrongly named / wrongly omitted, and whether the wrongly named are all nulls
                      extra |-> Rng(E.fc) \ FailSet, missing |-> FailSet \ Rng(E.fc),
                      extra_all_null |-> \A i \in Rng(E.fc) \ FailSet : IsNull(E.c[i])]))
  /\ (pc = "coerced" /\ Anomaly # {}) =>
       PrintT(ToJson([kind |-> "anomaly", eid |-> eid, clauses |-> Anomaly]))
  /\ pc = "coerced" =>
       PrintT(ToJson([kind |-> "judged", eid |-> eid, outcome |-> E.outcome, nfail |-> Cardinality(FailSet),
                      nexact |-> Cardinality({i \in 1..Len(E.c) : ~IsNull(E.c[i]) /\ Exact(T, E.c[i])})]))
=============================================================================
