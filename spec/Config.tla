------------------------------- MODULE Config -------------------------------
(***************************************************************************)
(* pandera's configuration (pandera/config.py, api/polars/utils.py):         *)
(*   CONFIG            process-wide configuration read from the environment   *)
(*                     at import time                                        *)
(*   _CONTEXT_CONFIG   the configuration in force; config_context(...) saves  *)
(*                     it, overrides the given options, and restores the      *)
(*                     saved value on exit (normal or exceptional)            *)
(* and the validation depth a polars validation runs at.                      *)
(*                                                                           *)
(* One action per critical section: Enter (save + override), Exit (restore),  *)
(* Query, and the composite polars validate = Enter(depth) . body . Exit.     *)
(***************************************************************************)
EXTENDS Integers, Sequences, FiniteSets, TLC

CONSTANTS MaxNest,     \* deepest nesting of config_context blocks
          MaxOps,      \* longest history
          Envs,        \* environments explored (set of records)
          Dev          \* deviations of the shipped code switched on (ideal: {})

None == "None"
Depths == {"SCHEMA_ONLY", "DATA_ONLY", "SCHEMA_AND_DATA"}

(* documented meaning of the environment variables (docs/source/configuration.md) *)
ConfigFromEnv(e) ==
  [enabled |-> IF "EnvValidationEnabledIgnored" \in Dev THEN TRUE ELSE e.enabled # "False",
   depth   |-> IF e.depth = "unset" THEN None ELSE e.depth,
   cache   |-> e.cache = "True",
   keep    |-> e.keep = "True"]

(* options of one config_context(...) call; None = not given *)
EnterOpts ==
  { [enabled |-> en, depth |-> d, cache |-> None, keep |-> None] :
       en \in {None, "T", "F"}, d \in {None} \cup Depths }
  \cup { [enabled |-> None, depth |-> None, cache |-> c, keep |-> k] :
       c \in {None, "T"}, k \in {None, "T"} }

Flag(old, opt) == IF opt = None THEN old ELSE opt = "T"
Override(c, o) == [enabled |-> Flag(c.enabled, o.enabled),
                   depth   |-> IF o.depth = None THEN c.depth ELSE o.depth,
                   cache   |-> Flag(c.cache, o.cache),
                   keep    |-> Flag(c.keep, o.keep)]

(* get_config_context(): the context configuration, depth defaulted *)
Effective(c) == [c EXCEPT !.depth = IF @ = None THEN "SCHEMA_AND_DATA" ELSE @]

(* api/polars/utils.py get_validation_depth *)
PolarsDepth(kind, c, g) ==
  IF c.depth # None THEN c.depth
  ELSE IF g.depth # None THEN g.depth
  ELSE IF kind = "lazyframe" THEN "SCHEMA_ONLY" ELSE "SCHEMA_AND_DATA"

(* does a validation at depth d reject a frame whose only violation is of the given scope? *)
Rejects(d, scope) == IF scope = "data" THEN d \in {"DATA_ONLY", "SCHEMA_AND_DATA"}
                     ELSE d \in {"SCHEMA_ONLY", "SCHEMA_AND_DATA"}

VARIABLES env, global, ctx,
          stack,     \* implementation: the saved outer configuration of every open block
          ghost,     \* specification: the configuration in force when each open block was entered
          hist,      \* operations so far (the history replayed into the code)
          obsv       \* predicted observation after every operation
vars == <<env, global, ctx, stack, ghost, hist, obsv>>

Init == /\ env \in Envs
        /\ global = ConfigFromEnv(env)
        /\ ctx = global
        /\ stack = <<>> /\ ghost = <<>> /\ hist = <<>> /\ obsv = <<>>

Record(op, o) == /\ hist' = Append(hist, op)
                 /\ obsv' = Append(obsv, o)
Obs(c, g, res) == [ctx |-> Effective(c), raw_depth |-> c.depth, global |-> g, res |-> res, asis |-> res]

Enter(o) ==
  /\ Len(stack) < MaxNest /\ Len(hist) < MaxOps
  /\ stack' = Append(stack, ctx)                 \* _outer_config_ctx = get_config_context(None)
  /\ ghost' = Append(ghost, ctx)
  /\ ctx' = Override(ctx, o)
  /\ Record([op |-> "enter", opts |-> o], Obs(ctx', global, "none"))
  /\ UNCHANGED <<env, global>>

Exit(exc) ==
  /\ stack # <<>> /\ Len(hist) < MaxOps + Len(stack)   \* every open block may still be closed
  /\ ctx' = IF exc /\ "NoRestoreOnException" \in Dev THEN ctx ELSE stack[Len(stack)]
  /\ stack' = SubSeq(stack, 1, Len(stack) - 1)
  /\ ghost' = SubSeq(ghost, 1, Len(ghost) - 1)
  /\ Record([op |-> "exit", exc |-> exc], Obs(ctx', global, "none"))
  /\ UNCHANGED <<env, global>>

(* schema.validate on polars: with config_context(validation_depth=get_validation_depth(obj)) *)
PolarsValidate(kind, scope) ==
  /\ Len(hist) < MaxOps
  /\ LET d == PolarsDepth(kind, ctx, global)
         res == IF ~ctx.enabled THEN "returned"
                ELSE IF Rejects(d, scope) THEN "rejected" ELSE "returned"
     IN Record([op |-> "polars_validate", kind |-> kind, scope |-> scope], Obs(ctx, global, res))
  /\ UNCHANGED <<env, global, ctx, stack, ghost>>

(* a stand-alone polars Column(...).validate(obj) (pandera/api/polars/components.py): the design is the   *)
(* documented default per container kind; the shipped method re-enters the CONTEXT depth only, so a      *)
(* LazyFrame is validated at full depth by default (finding PolarsColumnLazyFrameFullDepth; asis field)  *)
PolarsColumnValidate(kind, scope) ==
  /\ Len(hist) < MaxOps
  /\ LET d == PolarsDepth(kind, ctx, global)
         res == IF ~ctx.enabled THEN "returned" ELSE IF Rejects(d, scope) THEN "rejected" ELSE "returned"
         asis == IF ~ctx.enabled THEN "returned" ELSE IF Rejects(Effective(ctx).depth, scope) THEN "rejected" ELSE "returned"
     IN Record([op |-> "polars_column_validate", kind |-> kind, scope |-> scope],
               [Obs(ctx, global, res) EXCEPT !.asis = asis])
  /\ UNCHANGED <<env, global, ctx, stack, ghost>>

(* schema.validate on pandas: disabled validation returns the argument *)
PandasValidate(scope) ==
  /\ Len(hist) < MaxOps
  /\ LET res == IF ~ctx.enabled THEN "returned"
                ELSE IF Rejects(Effective(ctx).depth, scope) THEN "rejected" ELSE "returned"
     IN Record([op |-> "pandas_validate", scope |-> scope], Obs(ctx, global, res))
  /\ UNCHANGED <<env, global, ctx, stack, ghost>>

Next == \/ \E o \in EnterOpts : Enter(o)
        \/ \E x \in BOOLEAN : Exit(x)
        \/ \E kd \in {"dataframe", "lazyframe"}, sc \in {"data", "schema"} : PolarsValidate(kd, sc)
        \/ \E kd \in {"dataframe", "lazyframe"}, sc \in {"data", "schema"} : PolarsColumnValidate(kd, sc)
        \/ \E sc \in {"data", "schema"} : PandasValidate(sc)
Spec == Init /\ [][Next]_vars

---------------------------------------------------------------------------
(* C18 *)
(* leaving a block - normally or by exception, at any nesting - restores the  *)
(* configuration in force when it was entered                                 *)
ScopedRestore == [][ Len(ghost') < Len(ghost) => ctx' = ghost[Len(ghost)] ]_vars
SavedIsEntered == stack = ghost
GlobalUntouched == global = ConfigFromEnv(env)
AllClosedMeansGlobal == stack = <<>> => ctx = global
EnvHonoured == /\ (env.enabled = "False" => ~global.enabled)
               /\ (env.enabled # "False" => global.enabled)
               /\ (env.depth # "unset" => global.depth = env.depth)
PolarsDefaults ==
  (ctx.depth = None /\ global.depth = None) =>
     /\ PolarsDepth("lazyframe", ctx, global) = "SCHEMA_ONLY"
     /\ PolarsDepth("dataframe", ctx, global) = "SCHEMA_AND_DATA"
ContextBeatsGlobal == ctx.depth # None => \A kd \in {"dataframe", "lazyframe"} : PolarsDepth(kd, ctx, global) = ctx.depth
(* full depth rejects exactly when one of the restricted depths rejects *)
DepthOnlyRemoves ==
  \A sc \in {"data", "schema"} :
     Rejects("SCHEMA_AND_DATA", sc) <=> (Rejects("SCHEMA_ONLY", sc) \/ Rejects("DATA_ONLY", sc))
=============================================================================
