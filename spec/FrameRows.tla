------------------------------ MODULE FrameRows ------------------------------
(***************************************************************************)
(* Row-oriented semantics of DataFrameSchema.validate on pandas AND polars:  *)
(*   C11  drop_invalid_rows removes exactly the rows that violate a           *)
(*        row-level constraint                                                 *)
(*   C20  head / tail validate exactly the requested rows and return the       *)
(*        whole frame                                                          *)
(* for a frame with a float column a (values 0, 1, 2 or missing), an int       *)
(* column b and a hidden row id, under a schema with every kind of row-level   *)
(* constraint the back ends evaluate separately: nullability, column           *)
(* uniqueness (each report_duplicates), two column checks, joint uniqueness of  *)
(* (a, b), a row-wise dataframe-level check.                                    *)
(*                                                                           *)
(* The run is modelled the way both back ends work: each core check / check     *)
(* contributes the set of failing rows (one action each), then                  *)
(*   drop mode       the rows named by ANY collected failure are removed        *)
(*   subsample mode  the checks were shown the selected rows only               *)
(* RowOK / the explicit sub-frame are the declarative side; DropIsExact and      *)
(* SubsampleIsSubframe are proved by TLC for the design (Dev = {}).              *)
(*                                                                           *)
(* The pandas frame also has an INDEX LABELLING ix (the design never looks at   *)
(* it: rows are rows): unique labels, repeated labels, a two-level MultiIndex   *)
(* with unique / with repeated entries.  The shipped pandas back end identifies *)
(* rows by label when it drops (isin) and when it de-duplicates the head/tail   *)
(* selection; ShippedKept / ShippedVerdict carry that as known findings.        *)
(***************************************************************************)
EXTENDS Integers, Sequences, FiniteSets, TLC, Json

CONSTANTS MaxRows, MaxRowsSub, Backends, Rich

Null == -9
ValsA == {0, 1, 2, Null}
ValsB == {0, 1}
SetToSeq(S) == LET RECURSIVE Go(_) Go(T) == IF T = {} THEN <<>> ELSE LET m == CHOOSE x \in T : \A y \in T : x <= y IN <<m>> \o Go(T \ {m}) IN Go(S)

Reports == {"exclude_first", "exclude_last", "all"}
Schemas(backend) ==
  [nullable : BOOLEAN,
   unique : {"no"} \cup (IF backend = "pandas" THEN Reports ELSE {"all"}),     \* polars has no report_duplicates
   gt0 : BOOLEAN, le1 : IF Rich THEN BOOLEAN ELSE {FALSE},
   joint : {"no"} \cup (IF backend = "pandas" THEN {"exclude_first", "all"} ELSE {"all"}),
   rowcheck : BOOLEAN]

(* duplicates as the dataframe libraries see them (a missing value equals a missing value) *)
DupRows(keys, report, rows) ==
  {i \in rows :
     CASE report = "exclude_first" -> \E j \in rows : j < i /\ keys[j] = keys[i]
       [] report = "exclude_last"  -> \E j \in rows : j > i /\ keys[j] = keys[i]
       [] report = "all"           -> \E j \in rows : j # i /\ keys[j] = keys[i]}

(* the failing rows of each constraint, evaluated on the rows `rows` *)
FailNullable(S, D, rows) == IF S.nullable THEN {} ELSE {i \in rows : D.a[i] = Null}
FailUnique(S, D, rows)   == IF S.unique = "no" THEN {} ELSE DupRows(D.a, S.unique, rows)
FailGt0(S, D, rows)      == IF S.gt0 THEN {i \in rows : D.a[i] # Null /\ ~(D.a[i] > 0)} ELSE {}
FailLe1(S, D, rows)      == IF S.le1 THEN {i \in rows : D.a[i] # Null /\ ~(D.a[i] <= 1)} ELSE {}
FailJoint(S, D, rows)    == IF S.joint = "no" THEN {} ELSE DupRows([i \in DOMAIN D.a |-> <<D.a[i], D.b[i]>>], S.joint, rows)
FailRow(S, D, rows)      == IF S.rowcheck THEN {i \in rows : D.a[i] # Null /\ ~(D.a[i] <= D.b[i] + 1)} ELSE {}
Stages == <<"nullable", "unique", "gt0", "le1", "joint", "rowcheck">>
Fail(stage, S, D, rows) ==
  CASE stage = "nullable" -> FailNullable(S, D, rows) [] stage = "unique" -> FailUnique(S, D, rows)
    [] stage = "gt0" -> FailGt0(S, D, rows) [] stage = "le1" -> FailLe1(S, D, rows)
    [] stage = "joint" -> FailJoint(S, D, rows) [] stage = "rowcheck" -> FailRow(S, D, rows)

(* declarative: row i satisfies every row-level constraint (duplicates judged on the whole frame) *)
RowOK(S, D, i) == \A k \in 1..Len(Stages) : i \notin Fail(Stages[k], S, D, DOMAIN D.a)

(* head / tail selection, each selected row once; deviation PolarsSubsampleDedupByValue: the polars   *)
(* back end concatenates head and tail and calls unique(), which removes rows that are EQUAL BY VALUE *)
(* h = SampleAll stands for validate(sample=n) on a frame of n rows (no head): a random sample of ALL rows, whatever  *)
(* the seed - the one sample whose content the specification can state                                              *)
SampleAll == -2
Selected(n, h, t) == (IF h = SampleAll THEN 1..n ELSE IF h >= 0 THEN 1..(IF h < n THEN h ELSE n) ELSE {})
                     \cup (IF t >= 0 THEN {i \in 1..n : i > n - t} ELSE {})
DedupByValue(D, rows) == {i \in rows : ~\E j \in rows : j < i /\ D.a[j] = D.a[i] /\ D.b[j] = D.b[i]}

---------------------------------------------------------------------------
VARIABLES backend, mode, S, D, h, t, dev, rows, bad, k, out, ix
vars == <<backend, mode, S, D, h, t, dev, rows, bad, k, out, ix>>

(* index labellings of the pandas frame; rows 1 and 2 share a label in the "dup" kinds *)
(* ... and COLUMN labellings: the columns a, b named by strings (all kinds above), by the integers 0, 1 ("intcols") *)
(* or by tuples, i.e. two-level MultiIndex columns ("tuplecols"); nothing in the design reads the labels either     *)
(* "multits": a MultiIndex one level of which holds timestamps                                                        *)
IxKinds(b, n, m) == IF b # "pandas" THEN {"unique"}
                    ELSE IF n >= 3 /\ (m = "subsample" \/ Rich) THEN {"unique", "dup"}     \* three rows in the thorough tier: the two flat labellings
                    ELSE (IF n >= 2 THEN {"unique", "dup", "multi", "multidup"} ELSE {"unique"}) \cup {"intcols", "tuplecols", "multits"}
LabelOf(ixk, i) == IF ixk \in {"dup", "multidup"} THEN (i + 1) \div 2 ELSE i + 10
DedupByLabel(ixk, rws) == {i \in rws : ~\E j \in rws : j < i /\ LabelOf(ixk, j) = LabelOf(ixk, i)}

AtMostOneNull(a) == Cardinality({i \in DOMAIN a : a[i] = Null}) <= 1
Init ==
  /\ backend \in Backends /\ mode \in {"drop", "subsample"} /\ S \in Schemas(backend)
  /\ \E n \in 1..(IF mode = "drop" THEN MaxRows ELSE MaxRowsSub) : /\ D \in [a : [1..n -> ValsA], b : [1..n -> ValsB]]
                           /\ AtMostOneNull(D.a)          \* null-null duplicates: Series slice + DuplicateNullsNotReported
                           /\ ix \in IxKinds(backend, n, mode)
                           (* which of two rows with one label survives the shipped de-duplication of a random sample depends  *)
                           (* on the seed: the as-shipped prediction is stated for head / tail selections only                 *)
                           /\ (IF mode = "subsample"
                               THEN /\ h \in SampleAll..n /\ t \in -1..n /\ ~(h = -1 /\ t = -1) /\ (h = SampleAll => t \in {-1, 1})
                                    /\ rows = Selected(n, h, t)
                               ELSE h = -1 /\ t = -1 /\ rows = 1..n)
                           /\ (h = SampleAll => ix \notin {"dup", "multidup"})
  /\ dev = {} /\ bad = {} /\ k = 1 /\ out = [kind |-> "none"]

(* one core check / check per step: collect the failing rows it reports *)
RunStage == /\ k <= Len(Stages) /\ out.kind = "none"
            /\ bad' = bad \cup Fail(Stages[k], S, D, rows)
            /\ k' = k + 1 /\ UNCHANGED <<backend, mode, S, D, h, t, dev, rows, out, ix>>
Finish == /\ k > Len(Stages) /\ out.kind = "none"
          /\ out' = IF mode = "drop" THEN [kind |-> "ok", kept |-> SetToSeq((DOMAIN D.a) \ bad)]
                    ELSE IF bad = {} THEN [kind |-> "ok", kept |-> SetToSeq(DOMAIN D.a)] ELSE [kind |-> "raises", kept |-> <<>>]
          /\ UNCHANGED <<backend, mode, S, D, h, t, dev, rows, bad, k, ix>>
Next == RunStage \/ Finish
Spec == Init /\ [][Next]_vars

Done == out.kind # "none"
(* C11 *)
DropIsExact == (Done /\ mode = "drop") => out.kept = SetToSeq({i \in DOMAIN D.a : RowOK(S, D, i)})
KeptRowsConform == (Done /\ mode = "drop") =>
   LET keptset == {out.kept[j] : j \in 1..Len(out.kept)}
   IN \A stage \in {"nullable", "gt0", "le1", "rowcheck"} : Fail(stage, S, D, keptset) = {}
(* C20: the verdict is the verdict on the explicitly selected sub-frame, and everything is returned *)
SubsampleIsSubframe == (Done /\ mode = "subsample") =>
   /\ (out.kind = "ok") <=> (\A j \in 1..Len(Stages) : Fail(Stages[j], S, D, Selected(Len(D.a), h, t)) = {})
   /\ out.kind = "ok" => Len(out.kept) = Len(D.a)
SelectAllIsNoOption == (Done /\ mode = "subsample" /\ rows = DOMAIN D.a) =>
   ((out.kind = "ok") <=> (\A i \in DOMAIN D.a : RowOK(S, D, i)))

(* what the shipped polars subsampling predicts (known finding) *)
ShippedSelection == IF mode # "subsample" THEN rows
                    ELSE IF backend = "polars" THEN DedupByValue(D, rows) ELSE DedupByLabel(ix, rows)
ShippedVerdict ==
  LET sel == ShippedSelection
  IN IF \A j \in 1..Len(Stages) : Fail(Stages[j], S, D, sel) = {} THEN "ok" ELSE "raises"

(* deviation PolarsDropKeepsJointDuplicates: the joint-uniqueness error of the polars back end carries no   *)
(* per-row check output, so drop_invalid_rows cannot remove the duplicated rows                            *)
ShippedKept ==
  IF backend = "polars"
  THEN SetToSeq({i \in DOMAIN D.a : \A j \in 1..Len(Stages) : Stages[j] = "joint" \/ i \notin Fail(Stages[j], S, D, DOMAIN D.a)})
  ELSE LET badlabels == {LabelOf(ix, j) : j \in bad}          \* DropByLabelRemovesValidRows: survivors are chosen by label
       IN SetToSeq({i \in DOMAIN D.a : LabelOf(ix, i) \notin badlabels})

(* deviation DropEvalsMultiIndexLabels: drop_invalid_rows rebuilds MultiIndex labels by eval() of their printed form, *)
(* which is not an expression for timestamps, timedeltas or NaN: validate dies with NameError                          *)
ShippedDropLeaks == backend = "pandas" /\ mode = "drop" /\ ix = "multits" /\ bad # {}
Emit == Done =>
  PrintT(ToJson([kind |-> "rows", backend |-> backend, mode |-> mode, schema |-> S, a |-> D.a, b |-> D.b,
                 head |-> h, tail |-> t, ix |-> ix, expect |-> out,
                 (* the documented channel for an argument that is not a dataframe at all: TypeError, or pandera's own   *)
                 (* BackendNotFoundError ("no validation back end for this type")                                       *)
                 nonframe |-> {"TypeError", "BackendNotFoundError"},
                 (* C02: what the lazy report must name - per constraint, the rows of the selection that violate it *)
                 failing |-> [j \in 1..Len(Stages) |-> SetToSeq(Fail(Stages[j], S, D, rows))],
                 sel_same |-> (ShippedSelection = rows),
                 asis |-> IF mode = "subsample" THEN ShippedVerdict ELSE IF ShippedDropLeaks THEN "Leak:NameError" ELSE out.kind,
                 asis_kept |-> IF mode = "drop" THEN ShippedKept ELSE <<>>,
                 devs |-> (IF mode = "subsample" /\ ShippedVerdict # out.kind
                           THEN {IF backend = "polars" THEN "PolarsSubsampleDedupByValue" ELSE "SubsampleDedupByLabel"} ELSE {})
                          \cup (IF ShippedDropLeaks THEN {"DropEvalsMultiIndexLabels"} ELSE {})
                          \cup (IF mode = "drop" /\ ~ShippedDropLeaks /\ ShippedKept # out.kept
                                THEN {IF backend = "polars" THEN "PolarsDropKeepsJointDuplicates" ELSE "DropByLabelRemovesValidRows"} ELSE {})]))
=============================================================================
