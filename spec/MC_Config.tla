----------------------------- MODULE MC_Config -----------------------------
EXTENDS Config, Json

CONSTANTS Tier
EnvsQuick ==
  { [enabled |-> en, depth |-> d, cache |-> "unset", keep |-> "unset"] :
       en \in {"unset", "False"}, d \in {"unset", "SCHEMA_ONLY", "DATA_ONLY"} }
  \cup { [enabled |-> "True", depth |-> "SCHEMA_AND_DATA", cache |-> "True", keep |-> "False"] }
EnvsAll ==
  { [enabled |-> en, depth |-> d, cache |-> c, keep |-> k] :
       en \in {"unset", "True", "False"}, d \in {"unset"} \cup Depths,
       c \in {"unset", "True", "False"}, k \in {"unset", "True"} }
MCEnvs == IF Tier = "quick" THEN EnvsQuick ELSE EnvsAll

(* a history is emitted when it cannot be extended (length bound reached and all blocks closed) *)
Complete == Len(hist) >= MaxOps /\ stack = <<>>
Emit == Complete =>
          PrintT(ToJson([kind |-> "config", env |-> env, hist |-> hist, expect |-> obsv]))
=============================================================================
