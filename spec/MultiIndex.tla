------------------------------ MODULE MultiIndex ------------------------------
(***************************************************************************)
(* The MultiIndex schema component on pandas (C01, C03, C04, C06, C10):      *)
(*   MultiIndex([Index(.., name="p"), Index(.., name="q")], coerce, strict,   *)
(*              ordered, unique).validate(df)                                 *)
(*   DataFrameSchema(index=MultiIndex(..)).validate(df)                       *)
(* pandera/backends/pandas/components.py: MultiIndexBackend.validate,         *)
(* coerce_dtype; pandera/api/pandas/components.py: MultiIndex.                *)
(*                                                                           *)
(* The index of the frame is a sequence of named LEVELS.  A schema level       *)
(* applies to the data levels of the same name.  The run:                      *)
(*   Copy     working := the caller's frame, or a copy of it unless inplace     *)
(*   Coerce   every data level matched by a schema level that coerces           *)
(*            (its own coerce, or the MultiIndex's) is converted; levels that    *)
(*            no schema level matches are kept as they are; the level/name        *)
(*            association follows the DATA (one write to working.index)          *)
(*   Check    presence of every schema level, no foreign level when strict,       *)
(*            relative order of the levels when ordered, dtype / nullability /    *)
(*            checks per level, joint uniqueness                                   *)
(*   Finish   return working | raise                                               *)
(* Shapes of the data index: the two schema levels in schema order ("pq"), in       *)
(* the other order ("qp"), with a foreign third level ("pqr"), with a level          *)
(* missing ("p").                                                                    *)
(***************************************************************************)
EXTENDS Parse, Json

CONSTANTS MaxLen, Rich

VARIABLES S, levels, lazy, inplace, caller, work, aliased, pc, out
vars == <<S, levels, lazy, inplace, caller, work, aliased, pc, out>>

LevelP == [name : {"p"}, dtype : {"int64", "float64"}, coerce : BOOLEAN, checks : {<<>>, <<Chk("ge", <<iv(1)>>)>>}]
LevelQ == [name : {"q"}, dtype : IF Rich THEN {"int64", "float64"} ELSE {"int64"}, coerce : BOOLEAN, checks : {<<>>}]
Schemas == [lv : {<<a, b>> : a \in LevelP, b \in LevelQ}, coerce : BOOLEAN, strict : BOOLEAN, ordered : BOOLEAN,
            unique : IF Rich THEN BOOLEAN ELSE {FALSE}]

PCells(pd) == IF pd = "int64" THEN {iv(0), iv(2)} ELSE {fv(2), fv(4), fv(3)}
Shapes == {"pq", "qp", "pqr", "p"}
Lv(name, pd, cells) == [name |-> name, pd |-> pd, cells |-> cells]
Build(shape, P, Q, n) ==
  LET R == Lv("r", "int64", [i \in 1..n |-> iv(1)])
  IN CASE shape = "pq" -> <<P, Q>> [] shape = "qp" -> <<Q, P>> [] shape = "pqr" -> <<P, Q, R>> [] shape = "p" -> <<P>>

Init ==
  /\ S \in Schemas /\ lazy \in BOOLEAN /\ inplace \in BOOLEAN
  /\ \E n \in 1..MaxLen : \E shape \in Shapes : \E ppd \in {"int64", "float64"} : \E qpd \in {"int64", "float64"} :
     \E pc_ \in [1..n -> PCells(ppd)] : \E qc \in [1..n -> IF qpd = "int64" THEN {iv(1), iv(2)} ELSE {fv(2)}] :
        levels = Build(shape, Lv("p", ppd, pc_), Lv("q", qpd, qc), n)
  /\ caller = levels /\ work = levels /\ aliased = TRUE /\ pc = "copy" /\ out = [kind |-> "none"]

(* the schema level that applies to a data level, 0 when none does *)
SchemaLevelOf(name) == IF \E i \in 1..Len(S.lv) : S.lv[i].name = name THEN CHOOSE i \in 1..Len(S.lv) : S.lv[i].name = name ELSE 0
Coerces(i) == i # 0 /\ (S.coerce \/ S.lv[i].coerce)
AsField(l) == [name |-> NA, pd |-> l.pd, cells |-> l.cells, idx |-> [i \in 1..Len(l.cells) |-> iv(i - 1)]]

CoercedLevel(l) ==
  LET i == SchemaLevelOf(l.name)
  IN IF ~Coerces(i) THEN l
     ELSE LET r == CoerceCells(S.lv[i].dtype, l.cells)
          IN IF r.ok THEN [l EXCEPT !.pd = Phys(S.lv[i].dtype), !.cells = r.cells] ELSE l
CoercionFails(ls) == \E j \in 1..Len(ls) : LET i == SchemaLevelOf(ls[j].name) IN Coerces(i) /\ ~CoerceCells(S.lv[i].dtype, ls[j].cells).ok
AnyCoercion == S.coerce \/ \E i \in 1..Len(S.lv) : S.lv[i].coerce

Write(new) == /\ work' = new /\ caller' = IF aliased THEN new ELSE caller

Copy == /\ pc = "copy" /\ aliased' = inplace /\ pc' = "coerce"
        /\ UNCHANGED <<S, levels, lazy, inplace, caller, work, out>>

Coerce_ ==
  /\ pc = "coerce"
  /\ IF AnyCoercion /\ ~CoercionFails(work)
     THEN Write([j \in 1..Len(work) |-> CoercedLevel(work[j])])
     ELSE UNCHANGED <<work, caller>>
  /\ pc' = "check" /\ UNCHANGED <<S, levels, lazy, inplace, aliased, out>>

(* declarative: what it means for an index (a sequence of levels) to satisfy the schema *)
Names(ls) == [j \in 1..Len(ls) |-> ls[j].name]
PosOf(ls, name) == CHOOSE j \in 1..Len(ls) : ls[j].name = name
Present(ls, name) == \E j \in 1..Len(ls) : ls[j].name = name
LevelSat(sl, l) ==
  FieldSat([dtype |-> sl.dtype, nullable |-> FALSE, unique |-> FALSE, report |-> "all", name |-> NA, checks |-> sl.checks], AsField(l))
JointUnique(ls) ==
  LET n == Len(ls[1].cells)
  IN \A a, b \in 1..n : a # b => \E j \in 1..Len(ls) : Present(S.lv, ls[j].name) /\ ls[j].cells[a] # ls[j].cells[b]
IndexSat(ls) ==
  /\ \A i \in 1..Len(S.lv) : Present(ls, S.lv[i].name)
  /\ S.strict => \A j \in 1..Len(ls) : SchemaLevelOf(ls[j].name) # 0
  /\ S.ordered => \A i1, i2 \in 1..Len(S.lv) : i1 < i2 => PosOf(ls, S.lv[i1].name) < PosOf(ls, S.lv[i2].name)
  /\ \A i \in 1..Len(S.lv) : LevelSat(S.lv[i], ls[PosOf(ls, S.lv[i].name)])
  /\ S.unique => JointUnique(ls)

Check_ ==
  /\ pc = "check"
  /\ out' = IF (AnyCoercion /\ CoercionFails(work)) \/ ~(\A i \in 1..Len(S.lv) : Present(work, S.lv[i].name)) \/ ~IndexSat(work)
            THEN [kind |-> IF lazy THEN "SchemaErrors" ELSE "SchemaError"] ELSE [kind |-> "ok"]
  /\ pc' = "done" /\ UNCHANGED <<S, levels, lazy, inplace, caller, work, aliased>>

Next == Copy \/ Coerce_ \/ Check_
Spec == Init /\ [][Next]_vars

Done == pc = "done"
(* C04 *)
NoCallerMutation == ~inplace => caller = levels
(* C03: what is returned satisfies the schema with coercion switched off, and coercing it again changes nothing *)
ParsePostcondition == (Done /\ out.kind = "ok") => IndexSat(work)
ParseFixpoint == (Done /\ out.kind = "ok") => (~CoercionFails(work) /\ \A j \in 1..Len(work) : CoercedLevel(work[j]) = work[j])
(* C10: coercion keeps the association of names, lengths and exactly convertible values *)
CoercionKeepsShape ==
  Done => /\ Names(work) = Names(levels)
          /\ \A j \in 1..Len(work) : Len(work[j].cells) = Len(levels[j].cells)
          /\ \A j \in 1..Len(work) : SchemaLevelOf(work[j].name) = 0 => work[j] = levels[j]
(* C01: the verdict is the declared meaning of the schema on the coerced index *)
VerdictIsMeaning ==
  Done => ((out.kind = "ok") <=> (~(AnyCoercion /\ CoercionFails(levels)) /\ IndexSat([j \in 1..Len(levels) |-> CoercedLevel(levels[j])])))

Emit == Done =>
  PrintT(ToJson([kind |-> "multiindex", schema |-> S, levels |-> levels, opts |-> [lazy |-> lazy, inplace |-> inplace],
                 expect |-> [kind |-> out.kind, returned |-> work, caller_after |-> caller]]))
=============================================================================
