------------------------------- MODULE Model -------------------------------
(***************************************************************************)
(* C16 - a DataFrameModel means the same as the DataFrameSchema it          *)
(* describes.                                                               *)
(*                                                                         *)
(* A PROGRAM is a sequence of class definitions.  Class k names its parent  *)
(* (0 = pandera's DataFrameModel) and what its body contains:               *)
(*   fa, fb   the declaration of field a / b in this body: "inherit" (not    *)
(*            mentioned) or [ann, fld]: the annotation and the Field(...)     *)
(*            assigned to it ("omitted" = annotation only)                    *)
(*   cfg      the class's own Config ("none" or a set of option settings)     *)
(*   chk      a @check("a") method named chk: "none" or [pred, named]          *)
(*   dfc      a @dataframe_check method named dfc: "none" or a predicate       *)
(*   prs      a @parser("a") method named prs: "none" or a function name       *)
(*                                                                         *)
(* Compile(prog, k) is the schema the documentation promises for class k:     *)
(* fields along the inheritance chain with the child's declaration replacing  *)
(* the parent's in place, an annotation without Field resetting the options,  *)
(* Optional -> required=False, alias -> column key, Index annotations ->       *)
(* index, Field keyword checks followed by the check methods with the child's  *)
(* method overriding the parent's of the same name, Config options merged      *)
(* root to leaf, name = the class's own name unless its own Config sets one.   *)
(*                                                                         *)
(* The state machine is the history a user can produce: Define(k) and          *)
(* ToSchema(k) in any order (a class after its parent, to_schema after the      *)
(* definition).  The code keeps per-class compilation results on the class      *)
(* and in MODEL_CACHE, so the binding replays every history and compares each   *)
(* to_schema result with Compile - which depends on the program only:           *)
(* Stable and ParentsUntouched are that statement on the specification.         *)
(***************************************************************************)
EXTENDS Naturals, Sequences, FiniteSets, TLC, Json

CONSTANTS MaxHist, Backends, Thorough

None == "none"
F(ann, fld) == [ann |-> ann, fld |-> fld]
Inherit == F("inherit", "-")                   \* the body does not mention the field
NoMethod == [pred |-> None, named |-> FALSE]

(* annotation -> (container, dtype, optional) *)
AnnKind(ann) == CASE ann \in {"Series[int]", "Optional[Series[int]]", "int"} -> "int64"
                  [] ann = "Series[float]" -> "float64"
                  [] ann = "Series[str]" -> "str"
                  [] ann = "Index[int]" -> "int64"
                  [] ann = "Index[str]" -> "str"
IsIndexAnn(ann) == ann \in {"Index[int]", "Index[str]"}
IsOptional(ann) == ann = "Optional[Series[int]]"

(* Field(...) variants: options and keyword checks *)
FNullable(f) == f \in {"nullable_coerce", "ge0_nona"}
FCoerce(f) == f = "nullable_coerce"
FUnique(f) == f = "unique"
FAlias(f) == IF f = "alias_x" THEN "x" ELSE None
(* Field(ge=0, nullable=True, ignore_na=False): the check options given to Field belong to its keyword checks *)
FChecks(f) == CASE f = "ge0" -> << [k |-> "ge", arg |-> 0, ina |-> TRUE] >>
                [] f = "ge0_nona" -> << [k |-> "ge", arg |-> 0, ina |-> FALSE] >>
                [] f = "ge1_le5" -> << [k |-> "ge", arg |-> 1, ina |-> TRUE], [k |-> "le", arg |-> 5, ina |-> TRUE] >>
                [] OTHER -> <<>>

---------------------------------------------------------------------------
RECURSIVE Chain(_, _)
Chain(prog, k) == IF k = 0 THEN <<>> ELSE Chain(prog, prog[k].parent) \o <<k>>       \* root .. k

(* the last class of the chain whose body declares the field *)
Decl(prog, k, get(_)) ==
  LET ch == Chain(prog, k)
      idx == {i \in 1..Len(ch) : get(prog[ch[i]]) # Inherit}
  IN IF idx = {} THEN Inherit ELSE get(prog[ch[CHOOSE i \in idx : \A j \in idx : j <= i]])
(* the last class of the chain that defines the method *)
Method(prog, k, get(_)) ==
  LET ch == Chain(prog, k)
      idx == {i \in 1..Len(ch) : get(prog[ch[i]]).pred # None}
  IN IF idx = {} THEN NoMethod ELSE get(prog[ch[CHOOSE i \in idx : \A j \in idx : j <= i]])
(* merged configuration: an option keeps the value of the last class of the chain that sets it *)
Opt(prog, k, name, default) ==
  LET ch == Chain(prog, k)
      idx == {i \in 1..Len(ch) : \E s \in prog[ch[i]].cfg : s[1] = name}
  IN IF idx = {} THEN default
     ELSE LET c == prog[ch[CHOOSE i \in idx : \A j \in idx : j <= i]].cfg
          IN (CHOOSE s \in c : s[1] = name)[2]
OwnOpt(prog, k, name, default) ==
  IF \E s \in prog[k].cfg : s[1] = name THEN (CHOOSE s \in prog[k].cfg : s[1] = name)[2] ELSE default

(* the class of the chain that defines the method, and the name under which it registered its target:   *)
(* a @check("a") / @parser("a") method is written against the key field a has in the defining class     *)
Definer(prog, k, get(_)) ==
  LET ch == Chain(prog, k)
      idx == {i \in 1..Len(ch) : get(prog[ch[i]]).pred # None}
  IN IF idx = {} THEN 0 ELSE ch[CHOOSE i \in idx : \A j \in idx : j <= i]
KeyOfA(prog, k) == LET d == Decl(prog, k, LAMBDA c : c.fa)
                   IN IF d = Inherit THEN None ELSE IF FAlias(d.fld) = None THEN "a" ELSE FAlias(d.fld)
(* a method whose target is not a field of the class makes to_schema raise SchemaInitError *)
Dangling(prog, k) ==
  \E get \in {"chk", "prs"} :
     LET g(c) == IF get = "chk" THEN c.chk ELSE c.prs
         d == Definer(prog, k, g)
     IN d # 0 /\ KeyOfA(prog, d) # KeyOfA(prog, k)
MethodChecks(prog, k) ==
  LET m == Method(prog, k, LAMBDA c : c.chk)
  IN IF m.pred = None THEN <<>> ELSE << [k |-> "custom", pred |-> m.pred, name |-> IF m.named THEN "custom_name" ELSE "chk"] >>
MethodParsers(prog, k) ==
  LET m == Method(prog, k, LAMBDA c : c.prs) IN IF m.pred = None THEN <<>> ELSE << m.pred >>
FrameChecks(prog, k) ==
  LET m == Method(prog, k, LAMBDA c : c.dfc)
  IN IF m.pred = None THEN <<>> ELSE << [k |-> "custom", pred |-> m.pred, name |-> "dfc"] >>

Component(d, key, extraChecks, parsers) ==
  [key |-> IF FAlias(d.fld) = None THEN key ELSE FAlias(d.fld), dtype |-> AnnKind(d.ann),
   nullable |-> FNullable(d.fld), unique |-> FUnique(d.fld), coerce |-> FCoerce(d.fld),
   required |-> ~IsOptional(d.ann), checks |-> FChecks(d.fld) \o extraChecks, parsers |-> parsers]

Compile(prog, k) ==
  LET da == Decl(prog, k, LAMBDA c : c.fa)
      db == Decl(prog, k, LAMBDA c : c.fb)
      comps == (IF da = Inherit THEN <<>> ELSE << [d |-> da, n |-> "a"] >>)
               \o (IF db = Inherit THEN <<>> ELSE << [d |-> db, n |-> "b"] >>)
      cols == [i \in 1..Len(comps) |-> comps[i]]
      IsCol(i) == ~IsIndexAnn(comps[i].d.ann)
      colIdx == {i \in 1..Len(comps) : IsCol(i)}
      ixIdx == {i \in 1..Len(comps) : ~IsCol(i)}
      Mk(i) == Component(comps[i].d, comps[i].n,
                         IF comps[i].n = "a" THEN MethodChecks(prog, k) ELSE <<>>,
                         IF comps[i].n = "a" THEN MethodParsers(prog, k) ELSE <<>>)
      SeqOf(S) == LET RECURSIVE Go(_) Go(T) == IF T = {} THEN <<>> ELSE LET m == CHOOSE x \in T : \A y \in T : x <= y IN <<m>> \o Go(T \ {m}) IN Go(S)
      cs == SeqOf(colIdx)
      xs == SeqOf(ixIdx)
  IN IF Dangling(prog, k) THEN [error |-> "SchemaInitError"] ELSE
     [cols |-> [j \in 1..Len(cs) |-> Mk(cs[j])],
      (* a single index is unnamed unless check_name is given; several form a MultiIndex with names *)
      index |-> [j \in 1..Len(xs) |-> [Mk(xs[j]) EXCEPT !.key = IF Len(xs) = 1 THEN None ELSE @, !.parsers = <<>>]],
      (* dataframe-level checks: the @dataframe_check methods, then the REGISTERED checks named in Config (an unknown     *)
      (* Config attribute whose name is a registered check method; merged root to leaf like the options)                  *)
      checks |-> FrameChecks(prog, k) \o (IF Opt(prog, k, "sum_le", "none") = "none" THEN <<>>
                                           ELSE << [k |-> "registered", name |-> "sum_le", arg |-> Opt(prog, k, "sum_le", "none")] >>),
      strict |-> Opt(prog, k, "strict", "F"), coerce |-> Opt(prog, k, "coerce", "F"),
      ordered |-> Opt(prog, k, "ordered", "F"),
      name |-> OwnOpt(prog, k, "name", "class"),        \* "class" = the class's own __name__
      amc |-> Opt(prog, k, "add_missing_columns", "F"),
      (* the multiindex_* options describe the MultiIndex that two or more Index fields form; without one they mean nothing *)
      mi |-> IF Len(xs) > 1 THEN [strict |-> Opt(prog, k, "multiindex_strict", "F"), coerce |-> Opt(prog, k, "multiindex_coerce", "F")]
             ELSE [strict |-> "-", coerce |-> "-"]]

---------------------------------------------------------------------------
M(p, n) == [pred |-> p, named |-> n]
Cls(parent, fa, fb, cfg, chk, dfc, prs) == [parent |-> parent, fa |-> fa, fb |-> fb, cfg |-> cfg, chk |-> chk, dfc |-> dfc, prs |-> prs]

RootFA == {F("Series[int]", "ge0"), F("Series[float]", "ge0_nona"), F("Series[int]", "omitted"), F("Optional[Series[int]]", "nullable_coerce"),
           F("Index[int]", "default"), F("int", "alias_x")}
RootFB == {Inherit, F("Series[str]", "default")}
RootCfg == {{}, {<<"strict", "T">>, <<"coerce", "T">>}, {<<"ordered", "T">>, <<"name", "nm">>}, {<<"sum_le", "100">>}}
RootChk == {NoMethod, M("pos", TRUE), M("pos", FALSE)}
RootDfc == {NoMethod, M("sum_pos", FALSE)}
RootPrs == {NoMethod, M("abs", FALSE)}
Roots == {Cls(0, fa, fb, cfg, chk, dfc, prs) : fa \in RootFA, fb \in RootFB, cfg \in RootCfg, chk \in RootChk,
                                                  dfc \in RootDfc, prs \in RootPrs}
KidFA == {Inherit, F("Series[float]", "ge1_le5"), F("Series[float]", "ge0_nona"), F("Series[int]", "omitted"), F("Series[int]", "unique"), F("Index[int]", "default")}
KidFB == {Inherit, F("Series[str]", "nullable_coerce"), F("Index[str]", "default")}     \* a second Index field: a MultiIndex
KidCfg == {{}, {<<"strict", "filter">>}, {<<"coerce", "F">>, <<"add_missing_columns", "T">>}, {<<"name", "kid">>},
           {<<"multiindex_strict", "T">>, <<"multiindex_coerce", "T">>}, {<<"sum_le", "5">>}}
KidChk == {NoMethod, M("even", FALSE), M("even", TRUE)}
KidDfc == {NoMethod, M("first_even", FALSE)}
KidPrs == {NoMethod, M("plus1", FALSE)}
Kids(par) == {Cls(par, fa, fb, cfg, chk, dfc, prs) : fa \in KidFA, fb \in KidFB, cfg \in KidCfg, chk \in KidChk,
                                                      dfc \in KidDfc, prs \in KidPrs}
(* probes: a few fixed classes on the other side while one side is varied completely *)
ProbeRoots == {Cls(0, F("Series[int]", "ge0"), F("Series[str]", "default"), {<<"strict", "T">>, <<"coerce", "T">>}, M("pos", TRUE), M("sum_pos", FALSE), M("abs", FALSE)),
               Cls(0, F("Series[int]", "omitted"), Inherit, {}, NoMethod, NoMethod, NoMethod),
               Cls(0, F("Index[int]", "default"), F("Series[str]", "default"), {<<"ordered", "T">>, <<"name", "nm">>}, M("pos", FALSE), NoMethod, NoMethod)}
ProbeKids == {Cls(1, Inherit, Inherit, {}, NoMethod, NoMethod, NoMethod),
              Cls(1, F("Series[float]", "ge1_le5"), F("Series[str]", "nullable_coerce"), {<<"strict", "filter">>}, M("even", FALSE), M("first_even", FALSE), M("plus1", FALSE)),
              Cls(1, F("Series[int]", "omitted"), Inherit, {<<"name", "kid">>}, M("even", TRUE), NoMethod, NoMethod),
              Cls(1, Inherit, Inherit, {<<"coerce", "F">>, <<"add_missing_columns", "T">>}, NoMethod, NoMethod, M("plus1", FALSE))}
Thirds == {Cls(2, Inherit, Inherit, {}, NoMethod, NoMethod, NoMethod), Cls(1, F("Series[int]", "unique"), Inherit, {}, M("even", FALSE), NoMethod, NoMethod),
           Cls(2, F("Series[int]", "omitted"), F("Series[str]", "nullable_coerce"), {<<"strict", "filter">>}, NoMethod, NoMethod, M("plus1", FALSE))}
Progs2 == {<<r, c>> : r \in Roots, c \in ProbeKids} \cup {<<r, c>> : r \in ProbeRoots, c \in Kids(1)}
Progs3 == {<<r, c, t>> : r \in ProbeRoots, c \in ProbeKids, t \in Thirds}
Progs == IF Thorough THEN Progs2 \cup Progs3 ELSE {<<r, c>> : r \in ProbeRoots, c \in Kids(1)} \cup {<<r, c>> : r \in Roots, c \in {x \in ProbeKids : x.fa # Inherit \/ x.prs.pred # None}} \cup Progs3
VARIABLES prog, backend, defined, compiled, hist, results
vars == <<prog, backend, defined, compiled, hist, results>>
NClasses == Len(prog)

Init == /\ prog \in Progs
        /\ backend \in Backends
        /\ defined = {} /\ compiled = {} /\ hist = <<>> /\ results = <<>>
Define(k) == /\ k \notin defined /\ (prog[k].parent = 0 \/ prog[k].parent \in defined)
             /\ Len(hist) < MaxHist
             /\ defined' = defined \cup {k} /\ hist' = Append(hist, <<"define", k>>)
             /\ UNCHANGED <<prog, backend, compiled, results>>
ToSchema(k) == /\ k \in defined /\ Len(hist) < MaxHist
               /\ compiled' = compiled \cup {k}
               /\ hist' = Append(hist, <<"to_schema", k>>)
               /\ results' = Append(results, [cls |-> k, schema |-> Compile(prog, k)])
               /\ UNCHANGED <<prog, backend, defined>>
Next == \E k \in 1..NClasses : Define(k) \/ ToSchema(k)
Spec == Init /\ [][Next]_vars

(* to_schema is a function of the program: repeated calls agree, whatever happened in between *)
Stable == \A i, j \in 1..Len(results) : results[i].cls = results[j].cls => results[i].schema = results[j].schema
(* defining or compiling a subclass never changes what a parent compiles to *)
ParentsUntouched == [][\A i \in 1..Len(results) : results'[i] = results[i]]_vars
(* an inherited, untouched field means the same in the child as in the parent *)
InheritedFieldSame ==
  \A k \in 2..NClasses : (prog[k].fb = Inherit /\ prog[k].fa = Inherit /\ prog[k].chk = NoMethod /\ prog[k].prs = NoMethod
                            /\ ~Dangling(prog, k) /\ ~Dangling(prog, prog[k].parent)) =>
      Compile(prog, k).cols = Compile(prog, prog[k].parent).cols

Done == defined = 1..NClasses /\ (Len(hist) = MaxHist \/ compiled = 1..NClasses)
Emit == (Done /\ Len(results) > 0) =>
  PrintT(ToJson([kind |-> "model", backend |-> backend, prog |-> prog, hist |-> hist, expect |-> results,
                 final |-> [k \in 1..NClasses |-> Compile(prog, k)]]))
=============================================================================
