------------------------------- MODULE Parse -------------------------------
(***************************************************************************)
(* Parsing stages shared by the Series and DataFrame pipelines:             *)
(* default filling, dtype coercion (the container-level contract of         *)
(* try_coerce relative to an element-level table), row dropping.            *)
(***************************************************************************)
EXTENDS Field

Fail == <<"fail", 0>>

(* numeric strings of StrTable (see Values.tla: 9 "0", 10 "1", 11 "2") *)
StrToNum(k) == CASE k = 9 -> 0 [] k = 10 -> 1 [] k = 11 -> 2 [] OTHER -> -1
NumToStr(n) == CASE n = 0 -> sv(9) [] n = 1 -> sv(10) [] n = 2 -> sv(11) [] OTHER -> Fail
Trunc2(h) == IF h >= 0 THEN h \div 2 ELSE -((-h) \div 2)

Phys(T) == IF T = "str" THEN "object" ELSE T

(* element-level coercion table (what coerce_value does; PINNED by replay) *)
CoerceCell(T, v) ==
  CASE T = "float64" ->
         (CASE Tag(v) = "i" -> fv(2 * v[2])
            [] Tag(v) = "f" -> v
            [] Tag(v) = "b" -> fv(2 * v[2])
            [] Tag(v) = "na" -> NA
            [] Tag(v) = "s" -> IF StrToNum(v[2]) >= 0 THEN fv(2 * StrToNum(v[2])) ELSE Fail)
    [] T = "int64" ->
         (CASE Tag(v) = "i" -> v
            [] Tag(v) = "f" -> iv(Trunc2(v[2]))          \* PINNED: astype truncates 1.5 -> 1
            [] Tag(v) = "b" -> iv(v[2])
            [] Tag(v) = "na" -> Fail                      \* int64 cannot hold a null
            [] Tag(v) = "s" -> IF StrToNum(v[2]) >= 0 THEN iv(StrToNum(v[2])) ELSE Fail)
    [] T = "str" ->
         (CASE Tag(v) = "i" -> NumToStr(v[2])
            [] Tag(v) = "s" -> v
            [] Tag(v) = "na" -> NA                        \* PINNED: a null stays null
            [] OTHER -> Fail)
    [] OTHER -> v

Exact(T, v) == CoerceCell(T, v) # Fail /\ ~(T = "int64" /\ Tag(v) = "f" /\ v[2] % 2 # 0)

(* container-level contract *)
CoerceCells(T, cells) ==
  LET bad == { i \in 1..Len(cells) : CoerceCell(T, cells[i]) = Fail }
  IN IF bad = {} THEN [ok |-> TRUE, cells |-> [ i \in 1..Len(cells) |-> CoerceCell(T, cells[i]) ], bad |-> <<>>]
     ELSE [ok |-> FALSE, cells |-> cells, bad |-> SetToSortedSeq(bad)]

(* a field after coercion to T (unchanged when coercion fails) *)
CoerceField(T, f) ==
  LET r == CoerceCells(T, f.cells)
  IN IF T = "none" \/ ~r.ok THEN f ELSE [f EXCEPT !.cells = r.cells, !.pd = Phys(T)]
CoerceErrors(T, f) ==
  LET r == CoerceCells(T, f.cells)
  IN IF T = "none" \/ r.ok THEN <<>>
     ELSE << ErrCells("DATATYPE_COERCION", -1, r.bad, f.cells) >>

(* default filling: a null becomes the default; the physical dtype follows pandas fillna *)
FillDefault(dflt, f) ==
  IF IsNull(dflt) \/ ~HasNull(f.cells) THEN f
  ELSE [f EXCEPT !.cells = [ i \in 1..Len(f.cells) |-> IF IsNull(f.cells[i]) THEN dflt ELSE f.cells[i] ]]

(* coercion laws the specification itself must satisfy (checked by TLC) *)
CoerceIdempotent(T, cells) ==
  LET r == CoerceCells(T, cells) IN r.ok => CoerceCells(T, r.cells) = [r EXCEPT !.bad = <<>>]
=============================================================================
