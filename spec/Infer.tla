------------------------------- MODULE Infer -------------------------------
(***************************************************************************)
(* C14 - an inferred schema accepts the data it was inferred from.          *)
(*                                                                         *)
(* Infer(f) is the schema pandera.infer_schema derives from one field        *)
(* (column, index level or Series), written from the documentation of        *)
(* pandera/schema_statistics/pandas.py:                                      *)
(*   dtype     the physical dtype of the field                               *)
(*   nullable  some value is missing                                         *)
(*   checks    ge(float(min)), le(float(max)) for numbers that are not       *)
(*             booleans; ge(min), le(max) for datetimes; isin(categories)    *)
(*             for categoricals; nothing for all-null / empty fields         *)
(* The bounds of integer fields are converted to floats, so the values       *)
(* beyond 2**53 are symbolic: <<"i", Big + k>> stands for 2**53 + k and        *)
(* ToFloat rounds it to the nearest even multiple the way IEEE-754 does.      *)
(* A comparison between an integer cell and a float bound converts the cell   *)
(* to float first (numpy), which is what SatF models.                         *)
(*                                                                         *)
(* TLC enumerates every field of at most MaxRows cells over each kind and     *)
(* proves  Sound (the field satisfies its inferred schema, with Field.tla's   *)
(* FieldSat as the meaning of satisfaction), Tight (min and max meet the      *)
(* bounds with equality after rounding) and that rounding is monotone.        *)
(***************************************************************************)
EXTENDS Field, Json

CONSTANTS MaxRows, Kinds

Big == 1000000                               \* payload Big + k  means  2**53 + k
IsBig(v) == v[1] = "i" /\ v[2] >= Big
(* IEEE-754 double rounding of 2**53 + k, k in 0..7: ties to even *)
RoundK(k) == CASE k \in {0, 1} -> 0 [] k = 2 -> 2 [] k \in {3, 4, 5} -> 4 [] k = 6 -> 6 [] k = 7 -> 8
ToFloat(v) == IF v[1] = "i" THEN (IF IsBig(v) THEN <<"f", 2 * (Big + RoundK(v[2] - Big))>> ELSE <<"f", 2 * v[2]>>) ELSE v
tv(d) == <<"t", d>>                          \* Timestamp 2020-01-0d
dv(d) == <<"d", d>>                          \* Timedelta d days

Vals(kind) ==
  CASE kind = "int64"    -> {iv(-1), iv(0), iv(2), iv(Big + 1), iv(Big + 3)}
    [] kind = "float64"  -> {fv(-3), fv(0), fv(1), fv(4), NA}
    [] kind = "Int64"    -> {iv(0), iv(2), iv(Big + 1), NA}
    [] kind = "bool"     -> {bv(0), bv(1)}
    [] kind = "object"   -> {sv(2), sv(3), NA}                \* strings, possibly missing
    [] kind = "category" -> {sv(2), sv(3), NA}
    [] kind = "datetime64[ns]"  -> {tv(1), tv(2), tv(5), NA}
    [] kind = "timedelta64[ns]" -> {dv(1), dv(3), NA}
    [] kind = "datetime64[ns, UTC]" -> {tv(1), tv(2), NA}     \* time-zone aware
    [] kind = "complex128" -> {<<"c", 1>>, <<"c", 2>>}          \* 1+2j, 2-1j: no order, hence no bounds
Fields(kind) == UNION {[1..n -> Vals(kind)] : n \in 0..MaxRows}

NonNull(cells) == {cells[i] : i \in {j \in 1..Len(cells) : ~IsNull(cells[j])}}
AllNull(cells) == NonNull(cells) = {}
Ord(v) == Halves(ToFloat(v))
MinOf(cells) == CHOOSE v \in NonNull(cells) : \A w \in NonNull(cells) : Ord(v) <= Ord(w) /\ (Ord(v) = Ord(w) => Halves(v) <= Halves(w))
MaxOf(cells) == CHOOSE v \in NonNull(cells) : \A w \in NonNull(cells) : Ord(w) <= Ord(v) /\ (Ord(v) = Ord(w) => Halves(w) <= Halves(v))
(* categories of a categorical: the distinct non-null values, sorted (pandas) *)
Categories(cells) == SetToSortedSeq({v[2] : v \in NonNull(cells)})

InferChecks(kind, cells) ==
  IF AllNull(cells) THEN <<>>
  ELSE CASE kind \in {"int64", "float64", "Int64"} ->
              << Chk("ge", <<ToFloat(MinOf(cells))>>), Chk("le", <<ToFloat(MaxOf(cells))>>) >>
         [] kind \in {"datetime64[ns]", "datetime64[ns, UTC]"} -> << Chk("ge", <<MinOf(cells)>>), Chk("le", <<MaxOf(cells)>>) >>
         [] kind = "category" -> LET cs == Categories(cells) IN << Chk("isin", [i \in 1..Len(cs) |-> sv(cs[i])]) >>
         [] OTHER -> <<>>
(* an object array is classified by its content (pd.api.types.infer_dtype): strings stay object; an   *)
(* object array holding nothing but missing values may be typed object or float64 - left open        *)
InferDtype(kind, cells) == IF kind = "object" /\ AllNull(cells) /\ Len(cells) > 0 THEN "any" ELSE kind
Infer(kind, cells, name) ==
  [dtype |-> InferDtype(kind, cells), nullable |-> HasNull(cells), unique |-> FALSE, report |-> "all", name |-> name,
   checks |-> InferChecks(kind, cells)]

(* satisfaction as the code evaluates it: an integer cell is converted to float before it is    *)
(* compared with a float bound                                                                   *)
AsCompared(c, v) == IF v[1] = "i" /\ Len(c.a) > 0 /\ c.a[1][1] = "f" THEN ToFloat(v) ELSE v
Compared(S, cells) == [i \in 1..Len(cells) |-> cells[i]]
SatF(S, f) ==
  /\ NullableOK(S, f) /\ (S.dtype = "any" \/ DtypeOK(S.dtype, f))
  /\ \A k \in 1..Len(S.checks) : \A i \in 1..Len(f.cells) :
        IsNull(f.cells[i]) \/ Holds(S.checks[k], AsCompared(S.checks[k], f.cells[i]))

---------------------------------------------------------------------------
VARIABLES kind, cells, cont, pc, schema
vars == <<kind, cells, cont, pc, schema>>
FieldOf == [name |-> NA, pd |-> kind, cells |-> cells, idx |-> [i \in 1..Len(cells) |-> iv(i - 1)]]

Init == /\ kind \in Kinds /\ cells \in Fields(kind)
        /\ cont \in {"column", "index", "series", "multiindex", "sibling"}      \* "sibling": a column next to one with a null in the first row
                \cup (IF kind = "int64" THEN {"nocols", "duplabels", "mi_dupnames"} ELSE {})
                \* frame shapes: no column at all / a repeated column label / a MultiIndex whose two levels share one name
        /\ pc = "data" /\ schema = <<>>
DoInfer == pc = "data" /\ schema' = Infer(kind, cells, NA) /\ pc' = "inferred" /\ UNCHANGED <<kind, cells, cont>>
DoValidate == pc = "inferred" /\ pc' = "validated" /\ UNCHANGED <<kind, cells, cont, schema>>
Next == DoInfer \/ DoValidate
Spec == Init /\ [][Next]_vars

Sound == pc \in {"inferred", "validated"} => SatF(schema, FieldOf)
(* where no symbolic value is involved the declared meaning of Field.tla agrees *)
SoundDeclared == (pc = "inferred" /\ schema.dtype # "any" /\ ~\E i \in 1..Len(cells) : IsBig(cells[i])) => FieldSat(schema, FieldOf)
Tight == (pc = "inferred" /\ Len(schema.checks) = 2) =>
            /\ ToFloat(MinOf(cells)) = schema.checks[1].a[1]
            /\ ToFloat(MaxOf(cells)) = schema.checks[2].a[1]
RoundingMonotone == \A v, w \in Vals("int64") : Halves(v) <= Halves(w) => Ord(v) <= Ord(w)
NoChecksWithoutData == (pc = "inferred" /\ AllNull(cells)) => schema.checks = <<>>

Emit == pc = "validated" =>
  PrintT(ToJson([kind |-> "infer", pd |-> kind, cells |-> cells, cont |-> cont, expect |-> schema, accepts |-> SatF(schema, FieldOf)]))
=============================================================================
