---------------------------- MODULE MC_SeriesSub ----------------------------
(* subsample slice of MC_Series with the table of sampled positions read from  *)
(* the file the harness wrote (positions chosen by pandas' own sample(n,        *)
(* random_state=r) on a position-valued frame: no pandera code involved).       *)
EXTENDS MC_Series, IOUtils
SampleTableFromEnv == Range(JsonDeserialize(IOEnv.VF_SAMPLE_TABLE))
=============================================================================
