------------------------------ MODULE MC_Frame ------------------------------
(* Exhaustive slices of DataFrameSchema.validate on pandas (no parsing).     *)
EXTENDS ValidateFrame, Json

CONSTANTS SliceName,     \* "container" | "columns" | "joint" | "index"
          MaxCols,       \* container: longest label sequence
          Rich

A == sv(2)    B == sv(3)    AB == sv(4)    XB == sv(6)

BaseCol == [key |-> A, regex |-> FALSE, required |-> TRUE, default |-> NA, coerce |-> FALSE,
            dtype |-> "none", nullable |-> FALSE, unique |-> FALSE, report |-> "exclude_first",
            name |-> NA, checks |-> <<>>]
BaseSchema == [cols |-> <<>>, index |-> NoIndex, strict |-> "no", ordered |-> FALSE, ucn |-> FALSE,
               addmiss |-> FALSE, unique |-> <<>>, report |-> "exclude_first", coerce |-> FALSE,
               checks |-> <<>>, drop |-> FALSE]
IntCol(lab, cells) == [name |-> lab, pd |-> "int64", cells |-> cells]
DefaultIdx(n) == [ i \in 1..n |-> iv(i - 1) ]
Mk(cols, idx) == [cols |-> cols, idx |-> idx, idxpd |-> "int64", idxname |-> NA]

---------------------------------------------------------------------------
(* container: presence, strict, ordered, regex expansion, duplicate labels *)
CLabels == IF Rich THEN {A, B, AB, XB, sv(1)} ELSE {A, B, AB}
CKeys == { <<A, FALSE>>, <<B, FALSE>>, <<rv(3), TRUE>> }        \* rv(3) = regex "ab*": matches a, ab (re.match = prefix)
CCols == { [BaseCol EXCEPT !.key = kk[1], !.regex = kk[2], !.required = r, !.dtype = "int64"] :
             kk \in CKeys, r \in BOOLEAN }
CColSeqs == { <<c>> : c \in CCols } \cup { p \in CCols \X CCols : p[1].key # p[2].key }
InitContainer ==
  \E n \in 0..MaxCols : \E labs \in [1..n -> CLabels] :
  \E cs \in CColSeqs : \E st \in {"no", "yes"} : \E od \in BOOLEAN : \E u \in BOOLEAN : \E lz \in BOOLEAN :
     InitWith([BaseSchema EXCEPT !.cols = cs, !.strict = st, !.ordered = od, !.ucn = u],
              Mk([ i \in 1..n |-> IntCol(labs[i], <<iv(1)>>) ], DefaultIdx(1)), lz)

---------------------------------------------------------------------------
(* columns: several simultaneous row-level violations in two columns *)
ColAChecks == { <<>>, <<Chk("gt", <<iv(0)>>)>>, <<Chk("le", <<iv(1)>>)>>,
                <<Chk("gt", <<iv(0)>>), Chk("ne", <<iv(2)>>)>> }
ColBChecks == { <<>>, <<[Chk("ge", <<iv(1)>>) EXCEPT !.ina = FALSE]>>, <<Chk("lt", <<iv(1)>>)>> }
ColALabels == {A, sv(1), iv(0)}      \* "a", the empty string, the integer 0 (falsy labels)
InitColumns ==
  \E ca \in [1..2 -> {iv(0), iv(1), iv(2)}] : \E cb \in [1..2 -> {fv(-2), fv(2), NA}] :
  \E la \in ColALabels :
  \E ix \in (IF la = A THEN {DefaultIdx(2), <<iv(20), iv(10)>>} ELSE {DefaultIdx(2)}) :
  \E ka \in ColAChecks : \E ua \in BOOLEAN :
  \E kb \in ColBChecks : \E nb \in BOOLEAN : \E db \in {"float64", "int64"} : \E lz \in BOOLEAN :
     InitWith([BaseSchema EXCEPT !.cols =
                 << [BaseCol EXCEPT !.key = la, !.dtype = "int64", !.checks = ka, !.unique = ua],
                    [BaseCol EXCEPT !.key = B, !.dtype = db, !.nullable = nb, !.checks = kb] >>],
              [cols |-> << IntCol(la, ca), [name |-> B, pd |-> "float64", cells |-> cb] >>,
               idx |-> ix, idxpd |-> "int64", idxname |-> NA], lz)

---------------------------------------------------------------------------
(* joint uniqueness *)
InitJoint ==
  \E ca \in [1..3 -> {iv(1), iv(2)}] : \E cb \in [1..3 -> {fv(2), NA}] :
  \E ix \in {DefaultIdx(3), <<iv(30), iv(10), iv(20)>>} :
  \E un \in { <<A, B>>, <<A>>, <<B>>, <<A, AB>> } : \E rp \in {"exclude_first", "exclude_last", "all"} :
  \E lz \in BOOLEAN :
     InitWith([BaseSchema EXCEPT !.cols =
                 << [BaseCol EXCEPT !.key = A, !.dtype = "int64"],
                    [BaseCol EXCEPT !.key = B, !.dtype = "float64", !.nullable = TRUE] >>,
                 !.unique = un, !.report = rp],
              [cols |-> << IntCol(A, ca), [name |-> B, pd |-> "float64", cells |-> cb] >>,
               idx |-> ix, idxpd |-> "int64", idxname |-> NA], lz)

---------------------------------------------------------------------------
(* index component *)
BaseIndex == [dtype |-> "none", nullable |-> FALSE, unique |-> FALSE, report |-> "exclude_first",
              name |-> NA, checks |-> <<>>]
IndexSchemas ==
  { [BaseIndex EXCEPT !.dtype = d, !.unique = u, !.name = nm, !.checks = cs] :
      d \in {"none", "int64", "str"}, u \in BOOLEAN, nm \in {NA, A},
      cs \in { <<>>, <<Chk("gt", <<iv(5)>>)>>, <<Chk("isin", <<iv(10), iv(20)>>)>> } }
InitIndex ==
  \E n \in 0..3 : \E ix \in [1..n -> {iv(0), iv(10), iv(20)}] : \E inm \in {NA, A, B} :
  \E isch \in IndexSchemas : \E lz \in BOOLEAN :
     InitWith([BaseSchema EXCEPT !.cols = << [BaseCol EXCEPT !.key = A, !.dtype = "int64",
                                                     !.checks = <<Chk("lt", <<iv(2)>>)>>] >>,
                                  !.index = isch],
              [cols |-> << IntCol(A, [ i \in 1..n |-> iv(i) ]) >>, idx |-> ix, idxpd |-> "int64",
               idxname |-> inm], lz)

Init == CASE SliceName = "container" -> InitContainer
          [] SliceName = "columns"   -> InitColumns
          [] SliceName = "joint"     -> InitJoint
          [] SliceName = "index"     -> InitIndex
Spec == Init /\ [][Next]_vars

---------------------------------------------------------------------------
ASSUME PrintT(ToJson([kind |-> "header", strtable |-> StrTable, retable |-> ReTable]))

Devs(schema, frame) ==
  (IF StrictOrderedErrors(schema, frame) # StrictOrderedErrorsIdeal(schema, frame)
   THEN {"StrictOrderedStageStopsAtFirst"} ELSE {})
  \cup (IF IndexErrorsIdeal(schema, frame) # IndexErrorsByPosition(schema, frame)
        THEN {"IndexFailureCasesByPosition"} ELSE {})

Emit ==
  (pc = "done" /\ lazy) =>
     PrintT(ToJson([kind |-> "frame", slice |-> SliceName, schema |-> S, data |-> inp0,
                    expect |-> [sat |-> FrameSat(S, inp0),
                                errors |-> FrameErrors(S, inp0),
                                errors_asis |-> FrameErrorsAsIs(S, inp0),
                                devs |-> Devs(S, inp0)]]))
=============================================================================
