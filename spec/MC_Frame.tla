------------------------------ MODULE MC_Frame ------------------------------
(* Exhaustive slices of DataFrameSchema.validate on pandas (no parsing).     *)
EXTENDS ValidateFrame, Json

CONSTANTS SliceName,     \* "container" | "columns" | "joint" | "index"
          MaxCols,       \* container: longest label sequence
          Rich

A == sv(2)    B == sv(3)    AB == sv(4)    XB == sv(6)

BaseCol == [key |-> A, regex |-> FALSE, required |-> TRUE, default |-> NA, coerce |-> FALSE,
            dtype |-> "none", nullable |-> FALSE, unique |-> FALSE, report |-> "exclude_first",
            name |-> NA, checks |-> <<>>]
BaseSchema == [cols |-> <<>>, index |-> NoIndex, strict |-> "no", ordered |-> FALSE, ucn |-> FALSE,
               addmiss |-> FALSE, unique |-> <<>>, report |-> "exclude_first", coerce |-> FALSE,
               checks |-> <<>>, drop |-> FALSE]
BaseIndex == [dtype |-> "none", nullable |-> FALSE, unique |-> FALSE, report |-> "exclude_first",
              name |-> NA, checks |-> <<>>, coerce |-> FALSE]
IntCol(lab, cells) == [name |-> lab, pd |-> "int64", cells |-> cells]
DefaultIdx(n) == [ i \in 1..n |-> iv(i - 1) ]
Mk(cols, idx) == [cols |-> cols, idx |-> idx, idxpd |-> "int64", idxname |-> NA]

---------------------------------------------------------------------------
(* container: presence, strict, ordered, regex expansion, duplicate labels *)
CLabels == IF Rich THEN {A, B, AB, XB, sv(1)} ELSE {A, B, AB}
CKeys == { <<A, FALSE>>, <<B, FALSE>>, <<rv(3), TRUE>> }        \* rv(3) = regex "ab*": matches a, ab (re.match = prefix)
CCols == { [BaseCol EXCEPT !.key = kk[1], !.regex = kk[2], !.required = r, !.dtype = "int64"] :
             kk \in CKeys, r \in BOOLEAN }
CColSeqs == { <<c>> : c \in CCols } \cup { p \in CCols \X CCols : p[1].key # p[2].key }
InitContainer ==
  \E n \in 0..MaxCols : \E labs \in [1..n -> IF n <= 2 THEN CLabels \cup {sv(1)} ELSE CLabels] :      \* sv(1): the empty string, a falsy label
  \E cs \in CColSeqs : \E sf \in {"no", "yes"} : \E od \in BOOLEAN : \E u \in BOOLEAN : \E lz \in BOOLEAN :
     st = Start([BaseSchema EXCEPT !.cols = cs, !.strict = sf, !.ordered = od, !.ucn = u],
              Mk([ i \in 1..n |-> IntCol(labs[i], <<iv(1)>>) ], DefaultIdx(1)), lz, FALSE, AsIs)

---------------------------------------------------------------------------
(* columns: several simultaneous row-level violations in two columns *)
ColAChecks == { <<>>, <<Chk("gt", <<iv(0)>>)>>, <<Chk("le", <<iv(1)>>)>>,
                <<Chk("gt", <<iv(0)>>), Chk("ne", <<iv(2)>>)>> }
ColBChecks == { <<>>, <<[Chk("ge", <<iv(1)>>) EXCEPT !.ina = FALSE]>>, <<Chk("lt", <<iv(1)>>)>> }
ColALabels == {A, sv(1), iv(0)}      \* "a", the empty string, the integer 0 (falsy labels)
InitColumns ==
  \E ca \in [1..2 -> {iv(0), iv(1), iv(2)}] : \E cb \in [1..2 -> {fv(-2), fv(2), NA}] :
  \E la \in ColALabels :
  \E ix \in (IF la = A THEN {DefaultIdx(2), <<iv(20), iv(10)>>} ELSE {DefaultIdx(2)}) :
  \E ka \in ColAChecks : \E ua \in BOOLEAN :
  \E kb \in ColBChecks : \E nb \in BOOLEAN : \E db \in {"float64", "int64"} : \E lz \in BOOLEAN :
  \E ra \in BOOLEAN :        \* column a declared by its label, or by a regex that matches exactly that label
     st = Start([BaseSchema EXCEPT !.cols =
                 << [BaseCol EXCEPT !.key = IF ~ra THEN la ELSE IF la = A THEN rv(4) ELSE IF la = sv(1) THEN rv(10) ELSE rv(11),
                                    !.regex = ra, !.dtype = "int64", !.checks = ka, !.unique = ua],
                    [BaseCol EXCEPT !.key = B, !.dtype = db, !.nullable = nb, !.checks = kb] >>],
              [cols |-> << IntCol(la, ca), [name |-> B, pd |-> "float64", cells |-> cb] >>,
               idx |-> ix, idxpd |-> "int64", idxname |-> NA], lz, FALSE, AsIs)

---------------------------------------------------------------------------
(* joint uniqueness *)
InitJoint ==
  \E ca \in [1..3 -> {iv(1), iv(2)}] : \E cb \in [1..3 -> {fv(2), NA}] :
  \E ix \in {DefaultIdx(3), <<iv(30), iv(10), iv(20)>>} :
  \E un \in { <<A, B>>, <<A>>, <<B>>, <<A, AB>> } : \E rp \in {"exclude_first", "exclude_last", "all"} :
  \E lz \in BOOLEAN :
     st = Start([BaseSchema EXCEPT !.cols =
                 << [BaseCol EXCEPT !.key = A, !.dtype = "int64"],
                    [BaseCol EXCEPT !.key = B, !.dtype = "float64", !.nullable = TRUE] >>,
                 !.unique = un, !.report = rp],
              [cols |-> << IntCol(A, ca), [name |-> B, pd |-> "float64", cells |-> cb] >>,
               idx |-> ix, idxpd |-> "int64", idxname |-> NA], lz, FALSE, AsIs)

---------------------------------------------------------------------------
(* index component *)
IndexSchemas ==
  { [BaseIndex EXCEPT !.dtype = d, !.unique = u, !.name = nm, !.checks = cs] :
      d \in {"none", "int64", "str"}, u \in BOOLEAN, nm \in {NA, A},
      cs \in { <<>>, <<Chk("gt", <<iv(5)>>)>>, <<Chk("isin", <<iv(10), iv(20)>>)>> } }
InitIndex ==
  \E n \in 0..3 : \E ix \in [1..n -> {iv(0), iv(10), iv(20)}] : \E inm \in {NA, A, B} :
  \E isch \in IndexSchemas : \E lz \in BOOLEAN :
     st = Start([BaseSchema EXCEPT !.cols = << [BaseCol EXCEPT !.key = A, !.dtype = "int64",
                                                     !.checks = <<Chk("lt", <<iv(2)>>)>>] >>,
                                  !.index = isch],
              [cols |-> << IntCol(A, [ i \in 1..n |-> iv(i) ]) >>, idx |-> ix, idxpd |-> "int64",
               idxname |-> inm], lz, FALSE, AsIs)

---------------------------------------------------------------------------
(* parse: add_missing_columns, strict="filter", defaults, coercion (C03, C04) *)
PZ == sv(6)   \* "xb": never declared
PC == AB      \* "ab": declared, often absent
PCells(lab, v) == CASE lab = A  -> (IF v = 1 THEN [name |-> A, pd |-> "int64", cells |-> <<iv(1), iv(2)>>]
                                    ELSE [name |-> A, pd |-> "object", cells |-> <<sv(10), sv(2)>>])
                    [] lab = B  -> (IF v = 1 THEN [name |-> B, pd |-> "float64", cells |-> <<fv(2), NA>>]
                                    ELSE [name |-> B, pd |-> "int64", cells |-> <<iv(1), iv(0)>>])
                    [] lab = PC -> [name |-> PC, pd |-> "float64", cells |-> <<fv(1), fv(1)>>]
                    [] lab = PZ -> [name |-> PZ, pd |-> "int64", cells |-> <<iv(0), iv(0)>>]
PLabelSeqs == { <<A>>, <<A, B>>, <<B, A>>, <<PZ, A, B>>, <<A, PZ>>, <<A, B, PC>>, <<B>>, <<A, PZ, B>>, <<PC, A>> }
InitParse ==
  \E labs \in PLabelSeqs : \E va \in {1, 2} : \E vb \in {1, 2} :
  \E ix \in (IF Rich THEN { <<"int64", DefaultIdx(2)>>, <<"float64", <<fv(2), fv(4)>>>> }
              ELSE { <<"float64", <<fv(2), fv(4)>>>> }) :
  \E ca \in BOOLEAN : \E db \in {NA, fv(1)} : \E nb \in BOOLEAN : \E rb \in (IF Rich THEN BOOLEAN ELSE {TRUE}) :
  \E cc \in { <<NA, TRUE, <<>>>>, <<fv(1), FALSE, <<>>>>, <<NA, FALSE, <<>>>>,
              <<fv(1), FALSE, <<Chk("ge", <<iv(1)>>)>>>> } :      \* a default that fails the column's own check
  \E sf \in {"no", "yes", "filter"} : \E od \in (IF Rich THEN BOOLEAN ELSE {FALSE}) : \E am \in BOOLEAN : \E sc \in BOOLEAN :
  \E isch \in { NoIndex, [BaseIndex EXCEPT !.dtype = "int64"], [BaseIndex EXCEPT !.dtype = "int64", !.coerce = TRUE] } :
  \E lz \in BOOLEAN : \E ip \in (IF Rich THEN BOOLEAN ELSE {FALSE}) :
     st = Start([BaseSchema EXCEPT
                   !.cols = << [BaseCol EXCEPT !.key = A, !.dtype = "int64", !.coerce = ca,
                                               !.checks = <<Chk("ge", <<iv(1)>>)>>],
                                [BaseCol EXCEPT !.key = B, !.dtype = "float64", !.default = db,
                                               !.nullable = nb, !.required = rb],
                                [BaseCol EXCEPT !.key = PC, !.dtype = "float64", !.default = cc[1],
                                               !.nullable = cc[2], !.checks = cc[3]] >>,
                   !.strict = sf, !.ordered = od, !.addmiss = am, !.coerce = sc, !.index = isch],
                [cols |-> [ i \in 1..Len(labs) |-> PCells(labs[i], IF labs[i] = A THEN va ELSE vb) ],
                 idx |-> ix[2], idxpd |-> ix[1], idxname |-> NA], lz, ip, AsIs)

Init == CASE SliceName = "container" -> InitContainer
          [] SliceName = "parse"     -> InitParse
          [] SliceName = "columns"   -> InitColumns
          [] SliceName = "joint"     -> InitJoint
          [] SliceName = "index"     -> InitIndex
Spec == Init /\ [][Next]_st

---------------------------------------------------------------------------
ASSUME PrintT(ToJson([kind |-> "header", strtable |-> StrTable, retable |-> ReTable]))

Devs(schema, frame) ==
  (IF StrictOrderedErrors(schema, frame) # StrictOrderedErrorsIdeal(schema, frame)
   THEN {"StrictOrderedStageStopsAtFirst"} ELSE {})
  \cup (IF IndexErrorsIdeal(schema, frame) # IndexErrorsByPosition(schema, frame)
        THEN {"IndexFailureCasesByPosition"} ELSE {})
  \cup (IF ComponentsErrorsWith(schema, frame, TRUE) # ComponentsErrorsWith(schema, frame, FALSE)
        THEN {"DuplicateNullsNotReported"} ELSE {})

Predict(s) == [kind |-> s.out.kind,
               returned |-> IF s.out.kind = "ok" THEN s.out.returned ELSE [none |-> TRUE],
               errors |-> IF s.out.kind \in {"SchemaError", "SchemaErrors"} THEN s.out.errors ELSE <<>>,
               input_after |-> s.inp]
EmitPlain ==
  (st.pc = "done" /\ st.lazy) =>
     PrintT(ToJson([kind |-> "frame", slice |-> SliceName, schema |-> st.S, data |-> st.inp0,
                    expect |-> [sat |-> FrameSat(st.S, st.inp0),
                                errors |-> FrameErrors(st.S, st.inp0),
                                errors_asis |-> FrameErrorsAsIs(st.S, st.inp0),
                                devs |-> Devs(st.S, st.inp0)]]))
EmitParse ==
  st.pc = "done" =>
     PrintT(ToJson([kind |-> "frame_run", slice |-> SliceName, schema |-> st.S, data |-> st.inp0,
                    opts |-> [lazy |-> st.lazy, inplace |-> st.inplace],
                    expect |-> Predict(st), devs |-> {}]))
Emit == IF SliceName = "parse" THEN EmitParse ELSE EmitPlain
=============================================================================
