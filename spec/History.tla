------------------------------ MODULE History ------------------------------
(***************************************************************************)
(* Histories of operations on long-lived schema objects (C05) and faults    *)
(* injected into user callbacks during validation (C06).                    *)
(*                                                                         *)
(* The objects: a DataFrameSchema S with a coercing column `a` (one parser,  *)
(* one check), a regex column `b.*` (element-wise check; matches b1, b2), an  *)
(* index check and a frame-level check, strict=True; and a stand-alone regex  *)
(* Column RX.  Frames: "good", "badcheck" (a and b2 violate their checks),    *)
(* "badcoerce" (a cannot be coerced).                                         *)
(*                                                                         *)
(* `hidden` is the set of attributes of the schema object graph that differ   *)
(* from their value at construction time - the state a schema must not have.  *)
(* Every operation is modelled by its real mechanics:                         *)
(*   container validate : per component save/override/restore of coerce in     *)
(*       try/finally; the regex column is re-named to each matched label and   *)
(*       the name restored after the column validated                          *)
(*   serialisation      : statistics extraction writes an `options` entry into *)
(*       check.statistics; the YAML/JSON serialiser pops it again              *)
(* Deviations of the shipped code are named flags in Dev.                      *)
(***************************************************************************)
EXTENDS Integers, Sequences, FiniteSets, TLC

CONSTANTS MaxOps, Dev

Frames == {"good", "badcheck", "badcoerce"}
Excs == {"ValueError", "SchemaError"}

(* user callbacks invoked by a container validation that runs to the end, in order: *)
(* <<kind, component>>; the element-wise check on b.* is called once per element     *)
Plan == << <<"parser", "a">>, <<"check", "a">>,
           <<"check", "b1">>, <<"check", "b1">>, <<"check", "b2">>, <<"check", "b2">>,
           <<"check", "index">>, <<"check", "frame">> >>
(* callbacks of the stand-alone regex column RX (vectorised check): one per matched column *)
PlanRX == << <<"check", "b1">>, <<"check", "b2">> >>

IsRegexComp(c) == c \in {"b1", "b2"}

(* which components report a data-caused error, per frame *)
DataErrors(fr) == CASE fr = "good" -> {}
                    [] fr = "badcheck" -> {"a", "b2"}
                    [] fr = "badcoerce" -> {"a"}

(* A container validation.  `stale` = the regex column still carries a matched label  *)
(* from an earlier failed run: column info is then computed with the wrong pattern and *)
(* strict=True rejects the frame (the name is re-set while collecting components).     *)
(*                                                                                     *)
(* run_schema_component_checks validates EVERY component even in eager mode (each       *)
(* component stops at its own first error); the frame-level checks run only if nothing  *)
(* failed before (eager) or always (lazy).  An exception inside an element-wise check   *)
(* skips the remaining elements of that column.                                         *)
(* Returns [outcome, calls, rxfailed].                                                  *)
ColOf(i) == CASE i \in {3, 4} -> "b1" [] i \in {5, 6} -> "b2" [] OTHER -> "none"
ContainerRun(fr, lz, k0, exc, stale) ==
  LET n == Len(Plan)
      dataErr == DataErrors(fr)
      (* a stale pattern 'b2' makes strict=True reject column b1 in the strict stage; eager: raised at once *)
      early == ~lz /\ (stale \/ fr = "badcoerce")
      (* frame check (8) is not reached in eager mode once a data-caused error exists *)
      k == IF early THEN 0 ELSE IF ~lz /\ k0 = 8 /\ (dataErr # {} \/ stale) THEN 0 ELSE k0
      faultComp == IF k = 0 THEN "none" ELSE Plan[k][2]
      propagates == k = 1 /\ exc = "ValueError"
      skipped == { i \in 1..n :
                     \/ (k = 1 /\ i = 2)                                     \* parser raised SchemaError: column a stops
                     \/ (k # 0 /\ ColOf(k) # "none" /\ ColOf(i) = ColOf(k) /\ i > k)   \* rest of the element-wise map
                     \/ (~lz /\ k \in {3, 4} /\ i \in {5, 6})                 \* eager: the regex component stops at b1
                     \/ (~lz /\ i = 8 /\ (dataErr # {} \/ stale \/ (k # 0 /\ k < 8))) }
      errComps == dataErr \cup (IF k # 0 THEN {faultComp} ELSE {})
      anyErr == errComps # {} \/ stale \/ fr = "badcoerce"
  IN IF early THEN [outcome |-> "SchemaError", calls |-> 0, rxfailed |-> FALSE]
     ELSE IF propagates THEN [outcome |-> "Propagates", calls |-> 1, rxfailed |-> FALSE]
     ELSE [outcome |-> IF anyErr THEN (IF lz THEN "SchemaErrors" ELSE "SchemaError") ELSE "ok",
           calls |-> n - Cardinality(skipped),
           rxfailed |-> \E c \in errComps : IsRegexComp(c)]

(* effects of the operations, as functions of the hidden state h and the deviations dev *)
ValidateEff(h, dev, fr, lz, k, exc) ==
  LET stale == "S.rx.name" \in h
      r == ContainerRun(fr, lz, k, exc, stale)
      (* collect_schema_components re-sets the regex column's name; it stays wrong afterwards *)
      (* only if this run failed inside the regex component and the restore is skipped        *)
      h1 == h \ {"S.rx.name"}
      h2 == IF r.rxfailed /\ "RegexNameNotRestoredOnError" \in dev THEN h1 \cup {"S.rx.name"} ELSE h1
      (* the name is re-set only when component collection is reached, i.e. not when a core parser raised eagerly *)
      hn == IF ~lz /\ (stale \/ fr = "badcoerce") THEN h ELSE h2
  IN [h |-> hn, o |-> [outcome |-> r.outcome, calls |-> r.calls, hidden |-> hn]]

(* stand-alone regex column: no component collection, so a stale name is never healed; *)
(* with a stale name only the column it names is validated                              *)
ColumnValidateEff(h, dev, fr, lz, k, exc) ==
  LET stale == "RX.name" \in h
      cols == IF stale THEN <<"b2">> ELSE <<"b1", "b2">>        \* the stale label is the last failing one: b2
      bad == { c \in {"b2"} : fr = "badcheck" } \cup (IF k # 0 /\ k <= Len(cols) THEN {cols[k]} ELSE {})
      failing == { i \in 1..Len(cols) : cols[i] \in bad }
      firstFail == IF failing = {} THEN Len(cols) + 1 ELSE CHOOSE i \in failing : \A j \in failing : i <= j
      outcome == IF failing = {} THEN "ok" ELSE IF lz THEN "SchemaErrors" ELSE "SchemaError"
      calls == IF lz \/ failing = {} THEN Len(cols) ELSE firstFail
      hn == IF failing # {} /\ "RegexNameNotRestoredOnError" \in dev THEN h \cup {"RX.name"} ELSE h
  IN [h |-> hn, o |-> [outcome |-> outcome, calls |-> calls, hidden |-> hn]]

(* statistics extraction writes check.statistics["options"] in place; to_yaml / to_json pop it again *)
SerialiseEff(h, dev, fmt) ==
  LET hn == IF fmt \in {"yaml", "json"} THEN h \ {"S.stats.options"}
            ELSE IF "StatisticsOptionsLeak" \in dev THEN h \cup {"S.stats.options"} ELSE h
  IN [h |-> hn, o |-> [outcome |-> "ok", calls |-> 0, hidden |-> hn]]

(* a schema with a frame-level dtype: every component's dtype is saved, overridden with the   *)
(* frame dtype and restored in `finally` (run_schema_component_checks)                        *)
ValidateTypedEff(h, dev, good, lz) ==
  [h |-> h, o |-> [outcome |-> IF good THEN "ok" ELSE IF lz THEN "SchemaErrors" ELSE "SchemaError",
                   calls |-> 0, hidden |-> h]]

(* operations that only read: printing, comparing, copying, building strategies, drawing examples (of a    *)
(* synthesisable schema SU with a dataframe-level unique=[...]), coercing,                                  *)
(* and every transforming method (returns a new schema, receiver unchanged)                *)
Pure == {"repr", "eq", "deepcopy", "pickle", "strategy", "example", "coerce_dtype", "add_columns", "remove_columns",
         "update_column", "rename_columns", "select_columns", "set_index", "reset_index"}
ReadOnlyEff(h, dev, name) ==
  [h |-> h, o |-> [outcome |-> IF name = "eq" THEN (IF h \cap {"S.rx.name", "S.stats.options", "S.a.coerce"} = {} THEN "equal" ELSE "unequal") ELSE "ok",
                   calls |-> 0, hidden |-> h]]

ShippedDev == {"RegexNameNotRestoredOnError", "StatisticsOptionsLeak"}

(* two tracks run side by side: the design under the configured deviations (properties are *)
(* asserted on it with Dev = {}), and the code as shipped (predictions for known findings)  *)
VARIABLES hidden, obsv,      \* design track
          shid, sobsv,       \* as-shipped track
          hist
vars == <<hidden, obsv, shid, sobsv, hist>>

Init == hidden = {} /\ shid = {} /\ hist = <<>> /\ obsv = <<>> /\ sobsv = <<>>
CanStep == Len(hist) < MaxOps
Apply(op, e, se) ==
  /\ CanStep
  /\ hist' = Append(hist, op)
  /\ hidden' = e.h /\ obsv' = Append(obsv, e.o)
  /\ shid' = se.h /\ sobsv' = Append(sobsv, se.o)

Validate(fr, lz, k, exc) ==
  Apply([op |-> "validate", frame |-> fr, lazy |-> lz, fault |-> k, exc |-> exc],
        ValidateEff(hidden, Dev, fr, lz, k, exc), ValidateEff(shid, ShippedDev, fr, lz, k, exc))
ColumnValidate(fr, lz, k, exc) ==
  Apply([op |-> "column_validate", frame |-> fr, lazy |-> lz, fault |-> k, exc |-> exc],
        ColumnValidateEff(hidden, Dev, fr, lz, k, exc), ColumnValidateEff(shid, ShippedDev, fr, lz, k, exc))
ValidateTyped(good, lz) ==
  Apply([op |-> "validate_typed", good |-> good, lazy |-> lz],
        ValidateTypedEff(hidden, Dev, good, lz), ValidateTypedEff(shid, ShippedDev, good, lz))
Serialise(fmt) ==
  Apply([op |-> "serialise", fmt |-> fmt], SerialiseEff(hidden, Dev, fmt), SerialiseEff(shid, ShippedDev, fmt))
ReadOnly(name) ==
  Apply([op |-> name], ReadOnlyEff(hidden, Dev, name), ReadOnlyEff(shid, ShippedDev, name))

FaultsOf(fr, lz, plan) == {<<0, "ValueError">>} \cup { <<k, e>> : k \in 1..Len(plan), e \in Excs }

Next == \/ \E fr \in Frames, lz \in BOOLEAN : \E f \in FaultsOf(fr, lz, Plan) : Validate(fr, lz, f[1], f[2])
        \/ \E fr \in {"good", "badcheck"}, lz \in BOOLEAN : \E f \in FaultsOf(fr, lz, PlanRX) :
              ColumnValidate(fr, lz, f[1], f[2])
        \/ \E g \in BOOLEAN, lz \in BOOLEAN : ValidateTyped(g, lz)
        \/ \E fmt \in {"yaml", "json", "script", "statistics"} : Serialise(fmt)
        \/ \E nm \in Pure : ReadOnly(nm)
Spec == Init /\ [][Next]_vars

---------------------------------------------------------------------------
(* C05: no operation leaves hidden state, and verdicts do not depend on the history *)
NoHiddenState == hidden = {}
VerdictStable ==
  \A i \in 1..Len(hist) :
     hist[i].op = "validate" =>
        obsv[i].outcome = ContainerRun(hist[i].frame, hist[i].lazy, hist[i].fault, hist[i].exc, FALSE).outcome
(* C06: a raising check is a failed check; a raising parser propagates; either way the state is as before *)
FaultsLeaveNoTrace ==
  \A i \in 1..Len(hist) : hist[i].op \in {"validate", "column_validate"} /\ hist[i].fault # 0 => obsv[i].hidden = {}
DocumentedChannel ==
  \A i \in 1..Len(hist) : obsv[i].outcome \in {"ok", "SchemaError", "SchemaErrors", "Propagates", "equal", "unequal"}
=============================================================================
