------------------------------ MODULE Threads ------------------------------
(***************************************************************************)
(* Concurrent validations (C07).                                            *)
(*                                                                         *)
(* Shared state of the code: the attributes `coerce` / `dtype` of every      *)
(* component of a schema object (the pandas container saves them, overrides   *)
(* them and restores them in `finally` while it validates the component -      *)
(* backends/pandas/container.py run_schema_component_checks), and the          *)
(* process-wide context configuration (pandera/config.py _CONTEXT_CONFIG,      *)
(* saved / overridden / restored by config_context, which the polars API does  *)
(* around every validation).  There is no lock.                                *)
(*                                                                           *)
(* Each thread runs the step sequence of one validation at the granularity of   *)
(* shared accesses:                                                            *)
(*   Gate    read the component's coerce flag (decides whether to coerce)       *)
(*   Save    read it again into a local            (_orig_coerce)               *)
(*   Override  write FALSE                                                      *)
(*   Body    validate the component (reads nothing shared)                      *)
(*   Restore write the saved value                 (finally)                    *)
(* Design (Dev = {}): every validation works on its own copy of the components  *)
(* (what the polars container already does), so threads share nothing.          *)
(* Deviation MutateRestoreComponents: threads validating through one schema      *)
(* object share its components.                                                 *)
(***************************************************************************)
EXTENDS Integers, Sequences, FiniteSets, TLC

CONSTANTS Threads,     \* thread ids
          SchemaOf,    \* [Threads -> schema id]: which schema object each thread validates with
          Dev

Schemas == { SchemaOf[t] : t \in Threads }
(* the memory cell holding the coerce flag a thread works on *)
Cell(t) == IF "MutateRestoreComponents" \in Dev THEN <<"schema", SchemaOf[t]>> ELSE <<"copy", t>>
Cells == { Cell(t) : t \in Threads }

VARIABLES coerce,    \* [Cells -> BOOLEAN]
          tpc,       \* [Threads -> step]
          gate,      \* [Threads -> BOOLEAN] what the thread read at the gate
          saved      \* [Threads -> BOOLEAN]
vars == <<coerce, tpc, gate, saved>>

Init == /\ coerce = [c \in Cells |-> TRUE]
        /\ tpc = [t \in Threads |-> "gate"]
        /\ gate = [t \in Threads |-> TRUE]
        /\ saved = [t \in Threads |-> TRUE]

Gate(t)     == /\ tpc[t] = "gate" /\ gate' = [gate EXCEPT ![t] = coerce[Cell(t)]]
               /\ tpc' = [tpc EXCEPT ![t] = "save"] /\ UNCHANGED <<coerce, saved>>
Save(t)     == /\ tpc[t] = "save" /\ saved' = [saved EXCEPT ![t] = coerce[Cell(t)]]
               /\ tpc' = [tpc EXCEPT ![t] = "override"] /\ UNCHANGED <<coerce, gate>>
Override(t) == /\ tpc[t] = "override" /\ coerce' = [coerce EXCEPT ![Cell(t)] = FALSE]
               /\ tpc' = [tpc EXCEPT ![t] = "body"] /\ UNCHANGED <<gate, saved>>
Body(t)     == /\ tpc[t] = "body" /\ tpc' = [tpc EXCEPT ![t] = "restore"] /\ UNCHANGED <<coerce, gate, saved>>
Restore(t)  == /\ tpc[t] = "restore" /\ coerce' = [coerce EXCEPT ![Cell(t)] = saved[t]]
               /\ tpc' = [tpc EXCEPT ![t] = "done"] /\ UNCHANGED <<gate, saved>>
Next == \E t \in Threads : Gate(t) \/ Save(t) \/ Override(t) \/ Body(t) \/ Restore(t)
Spec == Init /\ [][Next]_vars

(* C07: every thread decides as it would alone, and the schema is as before afterwards *)
OutcomeSolo == \A t \in Threads : tpc[t] # "gate" => gate[t] = TRUE
Restored == (\A t \in Threads : tpc[t] = "done") => \A c \in Cells : coerce[c] = TRUE
=============================================================================
