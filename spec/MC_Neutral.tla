----------------------------- MODULE MC_Neutral -----------------------------
(***************************************************************************)
(* C08: one schema definition, two back ends.  The slice is restricted to    *)
(* the vocabulary both back ends support (dtypes int/float/str, nullable,     *)
(* unique, required, strict, ordered, add_missing_columns, defaults,          *)
(* coercion, built-in checks incl. regular expressions) on tables with the     *)
(* default index.  The specification has ONE meaning for it (FrameSat / the    *)
(* ValidateFrame pipeline); each vector is replayed on pandas and on polars    *)
(* and both must match the single prediction.                                  *)
(***************************************************************************)
EXTENDS ValidateFrame, Json

CONSTANTS SliceName, Rich

A == sv(2)    B == sv(3)    SC == sv(4)     \* column labels "a", "b", "ab"
BaseCol == [key |-> A, regex |-> FALSE, required |-> TRUE, default |-> NA, coerce |-> FALSE,
            dtype |-> "none", nullable |-> FALSE, unique |-> FALSE, report |-> "exclude_first",
            name |-> NA, checks |-> <<>>]
BaseSchema == [cols |-> <<>>, index |-> NoIndex, strict |-> "no", ordered |-> FALSE, ucn |-> FALSE,
               addmiss |-> FALSE, unique |-> <<>>, report |-> "exclude_first", coerce |-> FALSE,
               checks |-> <<>>, drop |-> FALSE]
Idx(n) == [ i \in 1..n |-> iv(i - 1) ]
Mk(cols, n) == [cols |-> cols, idx |-> Idx(n), idxpd |-> "int64", idxname |-> NA]

NumChecks == { <<>>, <<Chk("gt", <<iv(0)>>)>>, <<Chk("le", <<iv(1)>>)>>, <<Chk("ne", <<iv(1)>>)>>,
               <<Chk("in_range", <<iv(0), iv(2), bv(0), bv(0)>>)>>, <<Chk("in_range", <<iv(0), iv(2), bv(1), bv(0)>>)>>,
               <<Chk("isin", <<iv(0), iv(2)>>)>>, <<Chk("notin", <<iv(1)>>)>>,
               <<Chk("eq", <<iv(1)>>)>>, <<Chk("ge", <<iv(1)>>), Chk("lt", <<iv(2)>>)>> }
StrChecks == { <<>>, <<Chk("str_matches", <<rv(1)>>)>>, <<Chk("str_matches", <<rv(2)>>)>>, <<Chk("str_matches", <<rv(4)>>)>>,
               <<Chk("str_contains", <<rv(8)>>)>>, <<Chk("str_contains", <<rv(2)>>)>>,
               <<Chk("str_startswith", <<sv(2)>>)>>, <<Chk("str_endswith", <<sv(3)>>)>>,
               <<Chk("str_length", <<iv(1), iv(1)>>)>>, <<Chk("str_length", <<iv(2), NA>>)>>,
               <<Chk("isin", <<sv(2), sv(6)>>)>>, <<Chk("eq", <<sv(2)>>)>> }

(* values: one numeric column (int or float physical) or one string column, n rows *)
InitValues ==
  \/ \E n \in 0..(IF Rich THEN 3 ELSE 2) : \E pn \in {"int64", "float64"} :
     \E cn \in [1..n -> (IF pn = "int64" THEN {iv(0), iv(1), iv(2)} ELSE {fv(2), fv(4), NA})] :
     \E kn \in NumChecks : \E dn \in {"int64", "float64"} : \E nl \in BOOLEAN : \E un \in BOOLEAN :
        st = Start([BaseSchema EXCEPT !.cols =
                      << [BaseCol EXCEPT !.key = A, !.dtype = dn, !.checks = kn, !.nullable = nl, !.unique = un] >>],
                   Mk(<< [name |-> A, pd |-> pn, cells |-> cn] >>, n), TRUE, FALSE, {})
  \/ \E n \in 0..(IF Rich THEN 3 ELSE 2) : \E cs \in [1..n -> {sv(2), sv(6), sv(3), NA}] :
     \E ks \in StrChecks : \E nl \in BOOLEAN : \E un \in BOOLEAN :
        st = Start([BaseSchema EXCEPT !.cols =
                      << [BaseCol EXCEPT !.key = B, !.dtype = "str", !.checks = ks, !.nullable = nl, !.unique = un] >>],
                   Mk(<< [name |-> B, pd |-> "object", cells |-> cs] >>, n), TRUE, FALSE, {})

(* container: presence, strict, ordered, add_missing_columns + defaults, coercion *)
CCells(lab, v) == CASE lab = A  -> (IF v % 10 = 1 THEN [name |-> A, pd |-> "int64", cells |-> <<iv(1), iv(2)>>]
                                    ELSE [name |-> A, pd |-> "float64", cells |-> <<fv(2), fv(3)>>])
                    [] lab = B  -> (IF v < 10 THEN [name |-> B, pd |-> "float64", cells |-> <<fv(2), NA>>]
                                    ELSE [name |-> B, pd |-> "Int64", cells |-> <<iv(2), NA>>])   \* nullable integers on both back ends
                    [] lab = SC -> [name |-> SC, pd |-> "int64", cells |-> <<iv(0), iv(0)>>]
LabelSeqs == { <<>>, <<A>>, <<A, B>>, <<B, A>>, <<SC, A, B>>, <<A, SC>>, <<B>>, <<A, SC, B>> }
InitContainer ==
  \E labs \in LabelSeqs : \E va \in {1, 2} :
  \E ca \in BOOLEAN : \E dflt \in BOOLEAN : \E nb \in BOOLEAN : \E rb \in BOOLEAN :
  \E sf \in {"no", "yes", "filter"} : \E od \in BOOLEAN : \E am \in BOOLEAN : \E lz \in {TRUE} :
  \E kb \in { <<B, FALSE>>, <<rv(8), TRUE>> } :             \* column b declared by name, or by the regex "b$"
  \E tb \in { <<"float64", 0>>, <<"Int64", 10>> } :          \* column b: floats, or nullable integers
     /\ (kb[2] => rb)        \* an OPTIONAL regex column is not validated at all by the polars back end (known finding
                             \* PolarsOptionalRegexColumnNotValidated): outside the neutral vocabulary
     /\ st = Start([BaseSchema EXCEPT
                   !.cols = << [BaseCol EXCEPT !.key = A, !.dtype = "int64", !.coerce = ca,
                                               !.default = IF dflt THEN iv(1) ELSE NA,   \* a missing FIRST column can be added
                                               !.checks = <<Chk("ge", <<iv(1)>>)>>],
                                [BaseCol EXCEPT !.key = kb[1], !.regex = kb[2], !.dtype = tb[1],
                                               !.default = IF ~dflt THEN NA ELSE IF tb[1] = "float64" THEN fv(1) ELSE iv(1),
                                               !.nullable = nb, !.required = rb] >>,
                   !.strict = sf, !.ordered = od, !.addmiss = am],
                Mk([ i \in 1..Len(labs) |-> CCells(labs[i], va + tb[2]) ], 2), lz, FALSE, {})

Init == IF SliceName = "values" THEN InitValues ELSE InitContainer
Spec == Init /\ [][Next]_st

---------------------------------------------------------------------------
(* Known deviations of the polars back end, as predicates on the input (which vectors they apply to)   *)
(* and, where cheap, as exact alternative predictions.                                                *)
Cols(S) == [ i \in 1..Len(S.cols) |-> S.cols[i] ]
HasDupIn(D, key) == \E p \in 1..Len(D.cols) : D.cols[p].name = key /\ HasDup(D.cols[p].cells)
(* polars reports every member of a duplicated group (is_duplicated), pandas all but the first *)
UniqueAllApplies(S, D) == \E i \in 1..Len(S.cols) : S.cols[i].unique /\ HasDupIn(D, S.cols[i].key)
WithReportAll(S) == [S EXCEPT !.cols = [ i \in 1..Len(@) |-> [@[i] EXCEPT !.report = "all"] ]]
(* polars str_matches prefixes the pattern with ^ without grouping it: a|b becomes ^a|b, searched anywhere *)
TopAlt(c) == c.k = "str_matches" /\ Re(c.a[1]).op = "alt"
AltApplies(S) == \E i \in 1..Len(S.cols) : \E k \in 1..Len(S.cols[i].checks) : TopAlt(S.cols[i].checks[k])
(* the same schema with every such check replaced by what polars evaluates: search for (^l)|r *)
PolarsAltSchema(S) ==
  [S EXCEPT !.cols = [ i \in 1..Len(@) |->
     [@[i] EXCEPT !.checks = [ k \in 1..Len(@) |->
        IF TopAlt(@[k]) THEN [@[k] EXCEPT !.k = "str_contains", !.a = <<rv(9)>>] ELSE @[k] ]] ]]
(* a float default fills NaN but not null; a column with a default, or a coercing column, that is absent  *)
(* from the frame makes polars die with ColumnNotFoundError; add_missing_columns selects only the declared *)
(* columns, dropping undeclared ones                                                                      *)
DefaultApplies(S, D) ==
  \E i \in 1..Len(S.cols) : ~IsNull(S.cols[i].default) /\ S.cols[i].dtype = "float64" /\
     \E p \in 1..Len(D.cols) : Matches(S.cols[i], D.cols[p].name) /\ HasNull(D.cols[p].cells)
(* a required regex column that matches no column of the frame is an error on pandas (INVALID_COLUMN_NAME) and *)
(* silently accepted on polars: polars treats it like required=False                                            *)
RegexNoMatchApplies(S, D) ==
  \E i \in 1..Len(S.cols) : S.cols[i].regex /\ S.cols[i].required /\ ~\E p \in 1..Len(D.cols) : Matches(S.cols[i], D.cols[p].name)
(* polars frames hold null (not NaN): a float default never fills a column that is present (a missing column *)
(* is still created from its default by add_missing_columns)                                                *)
NoFloatDefault(S, D) == [S EXCEPT !.cols = [ i \in 1..Len(@) |->
   IF @[i].dtype = "float64" /\ \E p \in 1..Len(D.cols) : Matches(@[i], D.cols[p].name) THEN [@[i] EXCEPT !.default = NA] ELSE @[i] ]]
RegexOptional(S) == [S EXCEPT !.cols = [ i \in 1..Len(@) |-> IF @[i].regex THEN [@[i] EXCEPT !.required = FALSE] ELSE @[i] ]]
MissingLeakApplies(S, D) ==
  \E i \in 1..Len(S.cols) : ~(\E p \in 1..Len(D.cols) : Matches(S.cols[i], D.cols[p].name))
                             /\ (S.cols[i].coerce \/ S.coerce \/ ~IsNull(S.cols[i].default))
AddMissingDropsApplies(S, D) ==
  S.addmiss /\ Absent(S, D) # <<>> /\ \E p \in 1..Len(D.cols) : ~Declared(S, D, D.cols[p].name)
PolarsDevs(S, D) ==
  (IF UniqueAllApplies(S, D) THEN {"PolarsUniqueReportsAllMembers"} ELSE {})
  \cup (IF AltApplies(S) THEN {"PolarsStrMatchesTopLevelAlt"} ELSE {})
  \cup (IF DefaultApplies(S, D) THEN {"PolarsDefaultFillsNanOnly"} ELSE {})
  \cup (IF RegexNoMatchApplies(S, D) THEN {"PolarsRegexNoMatchAccepted"} ELSE {})
  \cup (IF MissingLeakApplies(S, D) THEN {"PolarsMissingColumnLeak"} ELSE {})
  \cup (IF AddMissingDropsApplies(S, D) THEN {"PolarsAddMissingDropsUndeclared"} ELSE {})
Pred(s) == [kind |-> s.out.kind,
            returned |-> IF s.out.kind = "ok" THEN s.out.returned ELSE [none |-> TRUE],
            errors |-> IF s.out.kind = "ok" THEN <<>> ELSE s.out.errors]

ASSUME PrintT(ToJson([kind |-> "header", strtable |-> StrTable, retable |-> ReTable]))
Emit ==
  st.pc = "done" =>
     PrintT(ToJson([kind |-> "neutral", slice |-> SliceName, schema |-> st.S, data |-> st.inp0,
                    opts |-> [lazy |-> st.lazy, inplace |-> FALSE],
                    expect |-> Pred(st),
                    pandas_asis |-> Pred(Run(Start(st.S, st.inp0, st.lazy, FALSE, {"DuplicateNullsNotReported"}))),
                    pandas_devs |-> IF Pred(Run(Start(st.S, st.inp0, st.lazy, FALSE, {"DuplicateNullsNotReported"}))) # Pred(st)
                                    THEN {"DuplicateNullsNotReported"} ELSE {},
                    polars_devs |-> PolarsDevs(st.S, st.inp0),
                    (* exact alternative prediction for the two value-level deviations *)
                    polars_drops |-> IF AddMissingDropsApplies(st.S, st.inp0)
                                     THEN {st.inp0.cols[p].name : p \in {q \in 1..Len(st.inp0.cols) : ~Declared(st.S, st.inp0, st.inp0.cols[q].name)}}
                                     ELSE {},
                    polars_asis |-> Pred(Run(Start(NoFloatDefault(RegexOptional(PolarsAltSchema(WithReportAll(st.S))), st.inp0), st.inp0, st.lazy, FALSE, {})))]))
=============================================================================
