----------------------------- MODULE Decorators -----------------------------
(***************************************************************************)
(* C17 - decorators gate the call on validation and are otherwise           *)
(* transparent.                                                             *)
(*                                                                         *)
(* A scenario is one decorated function and one call of it:                 *)
(*   deco    check_input | check_output | check_io | check_types             *)
(*   kind    function | method | classmethod | async                         *)
(*   sig     the parameter list after self/cls                               *)
(*             df_k (df, k) | k_df (k, df) | df_kdef (df, k=7)               *)
(*             df_star (df, *rest) | df_kwonly (df, *, k) | df_starkw (df, **kw)*)
(*   getter  how the frame is designated                                     *)
(*             check_input: none (first argument) | int (position) | str (name)*)
(*             check_output: none | int (tuple element) | str (dict key) | callable*)
(*             check_io: name ; check_types: annotation (plain or Optional[..]) *)
(*   dfpass, kpass   the frame / the other argument passed positionally, by    *)
(*             keyword, or (k only) left to its default                        *)
(*   opt     none | head1 | tail1 | lazy   validation options of the decorator *)
(*   data    good | bad_row2 | bad_row1 | bad_two | coercible | stale          *)
(* against one fixed schema: column a, coerced to int, 0 <= a <= 10.           *)
(*   bad_row2 is valid in its first row only, bad_row1 in its last row only,   *)
(*   bad_two breaks both bounds, coercible holds numeric strings, stale was     *)
(*   validated once (it carries the schema) and made invalid afterwards.        *)
(*                                                                         *)
(* The call is a two-step behaviour: Gate (validation of the designated        *)
(* inputs) then Body / Reject, then for output-validating decorators GateOut.   *)
(* Transparent and EquivalentDesignations are invariants of the model; the      *)
(* predictions are replayed on generated functions.                             *)
(***************************************************************************)
EXTENDS Naturals, Sequences, FiniteSets, TLC, Json

CONSTANTS Kinds, Thorough

Decos == {"check_input", "check_output", "check_io", "check_types"}
Sigs == {"df_k", "k_df", "df_kdef", "df_star", "df_kwonly", "df_starkw"}
Opts == {"none", "head1", "tail1", "lazy"}
Datas == {"good", "bad_row2", "bad_row1", "bad_two", "coercible"}

(* which argument-passing combinations Python accepts for a signature *)
ValidCall(sig, dfpass, kpass) ==
  CASE sig = "df_k"      -> <<dfpass, kpass>> \in {<<"pos", "pos">>, <<"pos", "kw">>, <<"kw", "kw">>}
    [] sig = "k_df"      -> <<dfpass, kpass>> \in {<<"pos", "pos">>, <<"kw", "pos">>, <<"kw", "kw">>}
    [] sig = "df_kdef"   -> <<dfpass, kpass>> \in {<<"pos", "pos">>, <<"pos", "kw">>, <<"kw", "kw">>, <<"pos", "default">>, <<"kw", "default">>}
    [] sig = "df_star"   -> <<dfpass, kpass>> \in {<<"pos", "pos">>, <<"pos", "default">>, <<"kw", "default">>}
    [] sig = "df_kwonly" -> <<dfpass, kpass>> \in {<<"pos", "kw">>, <<"kw", "kw">>}
    [] sig = "df_starkw" -> <<dfpass, kpass>> \in {<<"pos", "kw">>, <<"kw", "kw">>, <<"pos", "default">>}
Getters(deco, sig) ==
  CASE deco = "check_input"  -> {"int", "str"} \cup (IF sig = "k_df" THEN {} ELSE {"none"})
    [] deco = "check_output" -> {"none", "int", "str", "callable"}
    [] deco = "check_io"     -> {"name"}
    [] deco = "check_types"  -> {"annotation", "annotation_optional"}     \* DataFrame[M] | Optional[DataFrame[M]]

Scenarios ==
  {s \in [deco : Decos, kind : Kinds, sig : Sigs, getter : {"none", "int", "str", "callable", "name", "annotation", "annotation_optional"},
          dfpass : {"pos", "kw"}, kpass : {"pos", "kw", "default"}, opt : Opts,
          data : Datas \cup {"stale"}] :
     /\ s.getter \in Getters(s.deco, s.sig)
     /\ ValidCall(s.sig, s.dfpass, s.kpass)
     /\ (s.data = "stale" => s.deco = "check_types" /\ s.opt = "none")
     /\ (s.getter = "callable" => s.data # "coercible")       \* a callable getter is documented not to work with coercion
     /\ (s.deco = "check_output" => s.sig = "df_k" /\ s.dfpass = "pos" /\ s.kpass = "pos")   \* the call shape is irrelevant for outputs
     /\ (Thorough \/ s.sig \in {"df_k", "k_df", "df_kdef"} \/ s.opt = "none")}

Accepts(data, opt) ==
  CASE data \in {"good", "coercible"} -> TRUE
    [] data = "bad_row2" -> opt = "head1"
    [] data = "bad_row1" -> opt = "tail1"
    [] data \in {"bad_two", "stale"} -> FALSE
ErrKind(opt) == IF opt = "lazy" THEN "SchemaErrors" ELSE "SchemaError"
ValidatesInput(deco) == deco \in {"check_input", "check_io", "check_types"}
ValidatesOutput(deco) == deco \in {"check_output", "check_io", "check_types"}

---------------------------------------------------------------------------
VARIABLES sc, pc, called, received, outcome
vars == <<sc, pc, called, received, outcome>>

Init == sc \in Scenarios /\ pc = "call" /\ called = FALSE /\ received = "-" /\ outcome = "-"
(* input gate: the designated input is validated with the decorator's options *)
Gate == /\ pc = "call"
        /\ IF ValidatesInput(sc.deco) /\ ~Accepts(sc.data, sc.opt)
           THEN pc' = "done" /\ outcome' = ErrKind(sc.opt) /\ UNCHANGED <<called, received>>
           ELSE pc' = "body" /\ UNCHANGED <<called, received, outcome>>
        /\ UNCHANGED sc
(* the body runs with the parsed object where the input was validated, the caller's object otherwise *)
Body == /\ pc = "body" /\ called' = TRUE
        /\ received' = IF ValidatesInput(sc.deco) THEN "parsed" ELSE "original"
        /\ pc' = IF ValidatesOutput(sc.deco) THEN "out" ELSE "done"
        /\ outcome' = IF ValidatesOutput(sc.deco) THEN outcome ELSE "returned"
        /\ UNCHANGED sc
(* output gate: the body returns the frame it received; designated outputs are validated and replaced *)
GateOut == /\ pc = "out"
           /\ outcome' = IF ~Accepts(sc.data, sc.opt) THEN ErrKind(sc.opt)
                         ELSE IF ValidatesInput(sc.deco) THEN "returned_validated"   \* the body already holds a validated frame
                         ELSE IF sc.getter = "callable" THEN "returned_original" ELSE "returned_parsed"
           /\ pc' = "done" /\ UNCHANGED <<sc, called, received>>
Next == Gate \/ Body \/ GateOut
Spec == Init /\ [][Next]_vars

(* the body runs iff every designated input is accepted *)
GatesTheCall == pc = "done" => (called <=> (~ValidatesInput(sc.deco) \/ Accepts(sc.data, sc.opt)))
(* nothing but validation decides the outcome: it does not depend on kind, signature, designation or call shape *)
Expect(s) == IF ValidatesInput(s.deco) /\ ~Accepts(s.data, s.opt) THEN ErrKind(s.opt)
             ELSE IF ~ValidatesOutput(s.deco) THEN "returned"
             ELSE IF ~Accepts(s.data, s.opt) THEN ErrKind(s.opt)
             ELSE IF ValidatesInput(s.deco) THEN "returned_validated"
             ELSE IF s.getter = "callable" THEN "returned_original" ELSE "returned_parsed"
EquivalentDesignations == pc = "done" => outcome = Expect(sc)
OptionsHonoured == pc = "done" => (sc.data = "bad_row2" /\ sc.opt = "head1" /\ sc.deco # "check_output" => called)

Emit == pc = "done" =>
  PrintT(ToJson([kind |-> "deco", sc |-> sc, expect |-> [called |-> called, received |-> received, outcome |-> outcome]]))
=============================================================================
