------------------------------- MODULE Frame -------------------------------
(***************************************************************************)
(* DataFrameSchema on a pandas DataFrame: the declared meaning FrameSat,    *)
(* and the stages of DataFrameSchemaBackend.validate as pure operators on   *)
(* a run record, in the order of the code (container.py):                   *)
(*                                                                         *)
(*   collect_column_info -> add_missing_columns -> strict_filter_columns    *)
(*   -> set_defaults -> coerce_dtype -> (custom parsers) -> collect again   *)
(*   -> column names unique -> column presence -> joint uniqueness          *)
(*   -> one component at a time (columns in schema order, then the index)   *)
(*   -> frame-level checks -> finish                                        *)
(*                                                                         *)
(* A frame is   [cols : Seq([name, pd, cells]), idx : Seq(value),           *)
(*               idxpd : physical dtype of the index, idxname : value|NA]   *)
(* A schema is  [cols : Seq(column schema), index : index schema | NoIndex, *)
(*               strict : "no" | "yes" | "filter", ordered, ucn, addmiss,   *)
(*               unique : Seq of column keys (joint uniqueness), report,     *)
(*               coerce, checks, drop]                                      *)
(* A column schema is a field schema plus [key, regex, required, default,   *)
(*               coerce]; key is a label, or an index into ReTable.         *)
(***************************************************************************)
EXTENDS Field

NoIndex == [none |-> TRUE]
HasIndex(S) == "dtype" \in DOMAIN S.index

Labels(D) == [ i \in 1..Len(D.cols) |-> D.cols[i].name ]
Present(D, lab) == \E i \in 1..Len(D.cols) : D.cols[i].name = lab
PositionsOf(D, lab) == SetToSortedSeq({ i \in 1..Len(D.cols) : D.cols[i].name = lab })
NRows(D) == Len(D.idx)

RECURSIVE Destutter(_)
Destutter(s) == IF Len(s) <= 1 THEN s
                ELSE IF s[1] = s[2] THEN Destutter(Tail(s))
                     ELSE <<s[1]>> \o Destutter(Tail(s))
RECURSIVE Dedupe(_)
Dedupe(s) == IF s = <<>> THEN <<>>
             ELSE LET r == Dedupe(SubSeq(s, 1, Len(s) - 1))
                  IN IF s[Len(s)] \in Range(r) THEN r ELSE Append(r, s[Len(s)])
RECURSIVE Flatten(_)
Flatten(ss) == IF ss = <<>> THEN <<>> ELSE ss[1] \o Flatten(Tail(ss))
Filter(s, Test(_)) == LET keep == SetToSortedSeq({ i \in 1..Len(s) : Test(s[i]) })
                      IN [ j \in 1..Len(keep) |-> s[keep[j]] ]

(* the labels a column schema targets in a frame (regex: every matching     *)
(* label, in frame order, each once -- re.match semantics, i.e. prefix)      *)
(* regex columns are matched against columns.astype(str): an integer label is matched as its decimal string *)
LabStr(lab) == IF IsStr(lab) THEN Str(lab)
               ELSE IF Tag(lab) = "i" /\ lab[2] \in 0..2 THEN << CASE lab[2] = 0 -> "0" [] lab[2] = 1 -> "1" [] lab[2] = 2 -> "2" >>
               ELSE <<"?">>
Matches(cs, lab) == IF cs.regex THEN (IsStr(lab) \/ Tag(lab) = "i") /\ ReMatch(Re(cs.key), LabStr(lab)) ELSE lab = cs.key
Targets(cs, D) == Dedupe(Filter(Labels(D), LAMBDA lab : Matches(cs, lab)))

(* collect_column_info *)
Absent(S, D) == Filter([ i \in 1..Len(S.cols) |-> S.cols[i] ],
                       LAMBDA cs : ~cs.regex /\ cs.required /\ ~Present(D, cs.key))
ColumnNames(S, D) == Flatten([ i \in 1..Len(S.cols) |-> Targets(S.cols[i], D) ])
Sorted(S, D) == Dedupe(ColumnNames(S, D))
Declared(S, D, lab) == lab \in Range(ColumnNames(S, D))

---------------------------------------------------------------------------
(* Declared meaning                                                        *)
FieldAt(D, p) == [name |-> D.cols[p].name, pd |-> D.cols[p].pd, cells |-> D.cols[p].cells, idx |-> D.idx]
IndexField(D) == [name |-> D.idxname, pd |-> D.idxpd, cells |-> D.idx, idx |-> D.idx]
AsField(cs, lab) == [cs EXCEPT !.name = lab]

PresenceOK(S, D) ==
  \A i \in 1..Len(S.cols) :
     S.cols[i].required => Targets(S.cols[i], D) # <<>>
StrictOK(S, D) == S.strict = "yes" => \A i \in 1..Len(D.cols) : Declared(S, D, D.cols[i].name)
(* PINNED (container.py strict_filter_columns): the declared labels of the   *)
(* frame, adjacent repeats collapsed, are matched one by one against the     *)
(* schema-ordered list of present columns; once that list is exhausted the   *)
(* last expected label stays expected.                                       *)
OrderedOK(S, D) ==
  S.ordered =>
    LET P == Filter(Destutter(Labels(D)), LAMBDA lab : Declared(S, D, lab))
        Q == Sorted(S, D)
    IN \A i \in 1..Len(P) : P[i] = Q[IF i <= Len(Q) THEN i ELSE Len(Q)]
LabelsUniqueOK(S, D) == S.ucn => \A i, j \in 1..Len(D.cols) : i # j => D.cols[i].name # D.cols[j].name
ColumnsOK(S, D) ==
  \A i \in 1..Len(S.cols) :
     \A p \in 1..Len(D.cols) :
        Matches(S.cols[i], D.cols[p].name) => FieldSat(AsField(S.cols[i], D.cols[p].name), FieldAt(D, p))
RowKey(D, subset, r) == [ k \in 1..Len(subset) |-> D.cols[PositionsOf(D, subset[k])[1]].cells[r] ]
RowsDup(D, subset, r, q) == \A k \in 1..Len(subset) : DupEq(RowKey(D, subset, r)[k], RowKey(D, subset, q)[k])
JointSubset(S, D) == Filter(S.unique, LAMBDA lab : Present(D, lab))
JointUniqueOK(S, D) ==
  S.unique = <<>> \/
    LET sub == JointSubset(S, D)
    IN ~\E r, q \in 1..NRows(D) : r < q /\ RowsDup(D, sub, r, q)
IndexOK(S, D) == HasIndex(S) => FieldSat(S.index, IndexField(D))

FrameSat(S, D) == /\ PresenceOK(S, D)
                  /\ StrictOK(S, D)
                  /\ OrderedOK(S, D)
                  /\ LabelsUniqueOK(S, D)
                  /\ JointUniqueOK(S, D)
                  /\ ColumnsOK(S, D)
                  /\ IndexOK(S, D)

---------------------------------------------------------------------------
(* Error records of the container: a field error plus the column it is      *)
(* attributed to (NA for frame-level errors) and the schema context.         *)
FrameErr(reason, sval) ==
  [reason |-> reason, ci |-> -1, scalar |-> TRUE, cases |-> <<>>, sval |-> sval,
   col |-> NA, ctx |-> "DataFrameSchema"]
WithCol(errs, lab, ctx) ==
  [ e \in 1..Len(errs) |->
      [reason |-> errs[e].reason, ci |-> errs[e].ci, scalar |-> errs[e].scalar,
       cases |-> errs[e].cases, sval |-> errs[e].sval, col |-> lab, ctx |-> ctx] ]

(* strict / ordered stage: the FIRST offending label stops the stage          *)
(* (deviation StrictOrderedStageStopsAtFirst: a co-occurring second           *)
(* frame-level violation is not reported; see Deviations in DESIGN.md)        *)
RECURSIVE StrictOrderedScan(_, _, _, _, _)
StrictOrderedScan(S, D, P, i, qi) ==
  IF i > Len(P) THEN <<>>
  ELSE LET lab == P[i]
           isSchema == Declared(S, D, lab)
           Q == Sorted(S, D)
       IN IF S.strict = "yes" /\ ~isSchema
          THEN << FrameErr("COLUMN_NOT_IN_SCHEMA", "") >>
          ELSE IF S.ordered /\ isSchema
               THEN LET q == IF qi <= Len(Q) THEN qi ELSE Len(Q)
                    IN IF Q[q] # lab THEN << FrameErr("COLUMN_NOT_ORDERED", "") >>
                       ELSE StrictOrderedScan(S, D, P, i + 1, qi + 1)
               ELSE StrictOrderedScan(S, D, P, i + 1, qi)
StrictOrderedErrors(S, D) ==
  IF S.strict = "no" /\ ~S.ordered THEN <<>>
  ELSE StrictOrderedScan(S, D, Destutter(Labels(D)), 1, 1)
(* the ideal report: one entry per violated frame-level constraint *)
StrictOrderedErrorsIdeal(S, D) ==
  (IF StrictOK(S, D) THEN <<>> ELSE << FrameErr("COLUMN_NOT_IN_SCHEMA", "") >>)
    \o (IF OrderedOK(S, D) THEN <<>> ELSE << FrameErr("COLUMN_NOT_ORDERED", "") >>)

LabelsUniqueErrors(S, D) ==
  IF LabelsUniqueOK(S, D) THEN <<>> ELSE << FrameErr("DUPLICATE_COLUMN_LABELS", "") >>

PresenceErrors(S, D) ==
  LET ab == Absent(S, D) IN [ i \in 1..Len(ab) |-> FrameErr("COLUMN_NOT_IN_DATAFRAME", "") ]

(* joint uniqueness: every column of the subset for every reported row *)
JointDupRows(S, D, sub) ==
  { r \in 1..NRows(D) :
      CASE S.report = "exclude_first" -> \E q \in 1..(r - 1) : RowsDup(D, sub, r, q)
        [] S.report = "exclude_last"  -> \E q \in (r + 1)..NRows(D) : RowsDup(D, sub, r, q)
        [] S.report = "all"           -> \E q \in 1..NRows(D) : q # r /\ RowsDup(D, sub, r, q) }
JointUniqueErrors(S, D) ==
  IF JointUniqueOK(S, D) THEN <<>>
  ELSE LET sub  == JointSubset(S, D)
           rows == SetToSortedSeq(JointDupRows(S, D, sub))
           cases == Flatten([ k \in 1..Len(sub) |->
                       [ j \in 1..Len(rows) |-> << D.idx[rows[j]], RowKey(D, sub, rows[j])[k], sub[k] >> ] ])
           \* PINNED: null members are dropped from the report (reshape_failure_cases)
           kept == Filter(cases, LAMBDA c : ~IsNull(c[2]))
       IN << [reason |-> "DUPLICATES", ci |-> -1, scalar |-> FALSE, cases |-> kept, sval |-> "",
              col |-> NA, ctx |-> "DataFrameSchema"] >>

(* one column component: every target label, every column carrying it *)
ColumnComponentErrorsWith(cs, D, ideal) ==
  LET tg == Targets(cs, D)
  IN IF tg = <<>>
     THEN IF cs.regex
          THEN << [reason |-> "INVALID_COLUMN_NAME", ci |-> -1, scalar |-> TRUE, cases |-> <<>>,
                   sval |-> "", col |-> NA, ctx |-> "Column"] >>
          ELSE <<>>
     ELSE Flatten([ t \in 1..Len(tg) |->
            LET ps == PositionsOf(D, tg[t])
            IN Flatten([ k \in 1..Len(ps) |->
                  WithCol(Labelled(IF ideal THEN FieldErrorsIdeal(AsField(cs, tg[t]), FieldAt(D, ps[k]))
                                   ELSE FieldErrors(AsField(cs, tg[t]), FieldAt(D, ps[k])), D.idx), tg[t], "Column") ]) ])
ColumnComponentErrors(cs, D) == ColumnComponentErrorsWith(cs, D, FALSE)

(* is the component validated at all?  (collect_schema_components) *)
ComponentActive(cs, D) ==
  /\ cs.required \/ Targets(cs, D) # <<>>
  /\ ~(~cs.regex /\ cs.required /\ ~Present(D, cs.key))

(* the index component.  Ideal: failure cases carry the row label.            *)
(* Deviation IndexFailureCasesByPosition: they carry the row position.        *)
IndexErrorsIdeal(S, D) ==
  IF ~HasIndex(S) THEN <<>>
  ELSE WithCol(Labelled(FieldErrorsIdeal(S.index, IndexField(D)), D.idx), NA, "Index")
IndexErrorsByPosition(S, D) ==
  IF ~HasIndex(S) THEN <<>>
  ELSE WithCol(Labelled(FieldErrors(S.index, IndexField(D)), [ i \in 1..NRows(D) |-> iv(i - 1) ]), NA, "Index")

ComponentsErrorsWith(S, D, ideal) ==
  Flatten([ i \in 1..Len(S.cols) |->
             IF ComponentActive(S.cols[i], D) THEN ColumnComponentErrorsWith(S.cols[i], D, ideal) ELSE <<>> ])
ComponentsErrors(S, D) == ComponentsErrorsWith(S, D, FALSE)

(* all errors of a frame, in the order the code produces them (no parsing)    *)
FrameErrorsWith(S, D, soErrs, ixErrs, ideal) ==
  soErrs \o LabelsUniqueErrors(S, D) \o PresenceErrors(S, D) \o JointUniqueErrors(S, D)
    \o ComponentsErrorsWith(S, D, ideal) \o ixErrs
FrameErrors(S, D)      == FrameErrorsWith(S, D, StrictOrderedErrorsIdeal(S, D), IndexErrorsIdeal(S, D), TRUE)
FrameErrorsAsIs(S, D)  == FrameErrorsWith(S, D, StrictOrderedErrors(S, D), IndexErrorsByPosition(S, D), FALSE)
=============================================================================
