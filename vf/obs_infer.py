"""Replay Infer.tla behaviours through the real infer_schema / validate / YAML round trip (C14)."""
from __future__ import annotations

import warnings
from typing import Any, Dict, List

BIG = 1000000
STR = {2: "a", 3: "b"}


def cell(v: List[Any]):
    import pandas as pd

    t, x = v
    if t == "i":
        return 2 ** 53 + (x - BIG) if x >= BIG else int(x)
    if t == "f":
        return x / 2.0
    if t == "s":
        return STR[x]
    if t == "b":
        return bool(x)
    if t == "na":
        return None
    if t == "t":
        return pd.Timestamp("2020-01-%02d" % x)
    if t == "d":
        return pd.Timedelta(days=x)
    if t == "c":
        return {1: 1 + 2j, 2: 2 - 1j}[x]
    raise ValueError(v)


def array(pd_kind: str, cells: List[List[Any]]):
    import numpy as np
    import pandas as pd

    vals = [cell(c) for c in cells]
    if pd_kind == "int64":
        return np.array(vals, dtype="int64")
    if pd_kind == "float64":
        return np.array([np.nan if v is None else v for v in vals], dtype="float64")
    if pd_kind == "Int64":
        return pd.array(vals, dtype="Int64")
    if pd_kind == "bool":
        return np.array(vals, dtype="bool")
    if pd_kind == "object":
        return np.array(vals, dtype=object)
    if pd_kind == "category":
        return pd.Categorical(vals)
    if pd_kind == "datetime64[ns]":
        return pd.to_datetime(pd.Series(vals, dtype="datetime64[ns]")).values
    if pd_kind == "datetime64[ns, UTC]":
        return pd.Series(pd.to_datetime(pd.Series(vals, dtype="datetime64[ns]"))).dt.tz_localize("UTC").array
    if pd_kind == "complex128":
        return np.array(vals, dtype="complex128")
    if pd_kind == "timedelta64[ns]":
        return pd.Series(vals, dtype="timedelta64[ns]").values
    raise ValueError(pd_kind)


def container(vec: Dict[str, Any]):
    import pandas as pd

    arr = array(vec["pd"], vec["cells"])
    n = len(vec["cells"])
    cont = vec["cont"]
    if cont == "column":
        return pd.DataFrame({"a": arr})
    if cont == "sibling":
        # what is inferred for a column does not depend on the other columns: "zz" is null in the first row
        import numpy as np

        return pd.DataFrame({"a": arr, "zz": [np.nan] + [1.0] * (n - 1)} if n else {"a": arr, "zz": np.array([], dtype="float64")})
    if cont == "series":
        return pd.Series(arr, name="s")
    if cont == "nocols":
        return pd.DataFrame(index=pd.RangeIndex(n))
    if cont == "duplabels":
        return pd.DataFrame([list(arr)] * 1, columns=["a"] * n) if n else pd.DataFrame({"a": arr})
    if cont == "index":
        return pd.DataFrame({"z": list(range(n))}, index=pd.Index(arr, name="i"))
    if cont == "mi_dupnames":
        return pd.DataFrame({"z": list(range(n))}, index=pd.MultiIndex.from_arrays([arr, ["p"] * n], names=["i", "i"]))
    if cont == "multiindex":
        return pd.DataFrame({"z": list(range(n))}, index=pd.MultiIndex.from_arrays([arr, ["p"] * n], names=["i", "j"]))
    raise ValueError(cont)


def stat(x: Any) -> List[Any]:
    import pandas as pd

    if isinstance(x, pd.Timestamp):
        if x.tzinfo is not None:
            x = x.tz_convert("UTC").tz_localize(None)
        base = pd.Timestamp("2020-01-01")
        d = (x - base).days + 1
        return ["t", d] if x == pd.Timestamp("2020-01-%02d" % d) else ["other", str(x)]
    if isinstance(x, bool):
        return ["b", int(x)]
    if isinstance(x, float):
        if x == float("inf") or x != x:
            return ["other", repr(x)]
        if x >= 2.0 ** 53:
            return ["f", 2 * (BIG + int(x - 2.0 ** 53))]
        return ["f", int(2 * x)] if 2 * x == int(2 * x) else ["other", repr(x)]
    if isinstance(x, int):
        return ["i", x]
    if isinstance(x, str):
        inv = {v: k for k, v in STR.items()}
        return ["s", inv[x]] if x in inv else ["other", x]
    return ["other", repr(x)]


def _same_values(a, b) -> bool:
    """value-level identity: same labels, same cells (missing = missing); the flavour of an empty categorical's
    categories or of an all-null level is not a value"""
    import pandas as pd

    if type(a) is not type(b) or len(a) != len(b):
        return False
    try:
        if not a.index.equals(b.index):
            if not (len(a.index) == len(b.index) and all((x == y) or (pd.isna(x) is True and pd.isna(y) is True) or
                                                          (isinstance(x, tuple) and all((p == q) or (pd.isna(p) and pd.isna(q)) for p, q in zip(x, y)))
                                                          for x, y in zip(a.index, b.index))):
                return False
        cols_a = [a[c] for c in a.columns] if isinstance(a, pd.DataFrame) else [a]
        cols_b = [b[c] for c in b.columns] if isinstance(b, pd.DataFrame) else [b]
        if isinstance(a, pd.DataFrame) and list(a.columns) != list(b.columns):
            return False
        for x, y in zip(cols_a, cols_b):
            for p, q in zip(list(x), list(y)):
                if pd.isna(p) and pd.isna(q):
                    continue
                if pd.isna(p) or pd.isna(q) or p != q:
                    return False
        return True
    except Exception:  # noqa: BLE001
        return False


NAMES = {"greater_than_or_equal_to": "ge", "less_than_or_equal_to": "le", "isin": "isin"}


def p_comp(c) -> Dict[str, Any]:
    checks = []
    for x in c.checks:
        st = x.statistics or {}
        if x.name == "isin":
            args = [stat(v) for v in st.get("allowed_values", [])]
        else:
            args = [stat(v) for k, v in st.items() if k != "options"]
        checks.append({"k": NAMES.get(x.name, x.name), "a": args})
    return {"dtype": str(c.dtype), "nullable": bool(c.nullable), "checks": checks, "coerce": bool(c.coerce)}


def observe_infer(vec: Dict[str, Any]) -> Dict[str, Any]:
    import pandas as pd
    import pandera as pa
    from pandera.io import from_yaml, to_yaml

    out: Dict[str, Any] = {}
    with warnings.catch_warnings():
        warnings.simplefilter("ignore")
        obj = container(vec)
        before = obj.copy(deep=True)
        try:
            schema = pa.infer_schema(obj)
        except Exception as e:  # noqa: BLE001
            return {"error": "infer:%s" % type(e).__name__, "detail": str(e)[:120]}
        cont = vec["cont"]
        if cont in ("nocols", "duplabels"):
            comp = None
        elif cont in ("column", "sibling"):
            comp = schema.columns["a"]
            out["frame_coerce"] = bool(schema.coerce)
        elif cont == "series":
            comp = schema
        elif cont == "index":
            comp = schema.index
        else:
            comp = schema.index.indexes[0]
        out["inferred"] = p_comp(comp) if comp is not None else None
        fld = (None if comp is None else obj["a"] if cont in ("column", "sibling") else obj if cont == "series" else obj.index if cont == "index"
               else obj.index.get_level_values(0))
        out["built_pd"] = str(fld.dtype) if fld is not None else vec["pd"]
        try:
            res = schema.validate(obj)
            out["accepts"] = True
            out["unchanged"] = _same_values(res, before) and _same_values(obj, before)
            out["same_dtypes"] = ([str(t) for t in res.dtypes] == [str(t) for t in before.dtypes]) if isinstance(res, pd.DataFrame) \
                else str(res.dtype) == str(before.dtype)
        except (pa.errors.SchemaError, pa.errors.SchemaErrors) as e:
            out["accepts"] = False
            out["detail"] = str(e)[:160].replace("\n", " ")
        except Exception as e:  # noqa: BLE001
            out["accepts"] = False
            out["detail"] = "raise:%s %s" % (type(e).__name__, str(e)[:100])
        if isinstance(obj, pd.DataFrame):
            try:
                back = from_yaml(to_yaml(schema))
                back.validate(obj)
                out["yaml"] = "ok"
                out["yaml_eq"] = bool(back == schema)
            except (pa.errors.SchemaError, pa.errors.SchemaErrors) as e:
                out["yaml"] = "rejects"
                out["detail"] = str(e)[:160].replace("\n", " ")
            except Exception as e:  # noqa: BLE001
                out["yaml"] = "raise:%s" % type(e).__name__
                out["detail"] = str(e)[:120]
        else:
            out["yaml"] = "n/a"
    return out
