"""Run (a subset of) the repository's baseline tests and compare with BASELINE.json stable_pass.

usage: python -m vf.baseline [pytest paths...]   (guard env var unset)
Prints tests that are in stable_pass but did not pass.
"""
from __future__ import annotations

import json
import os
import subprocess
import sys
import tempfile
import xml.etree.ElementTree as ET


def main(argv):
    paths = argv or []
    base = json.load(open("/root/.vp/BASELINE.json"))
    stable = set(base["stable_pass"])
    out = tempfile.mktemp(suffix=".xml", prefix="vf-baseline-")
    env = dict(os.environ)
    env.pop("PANDERA_VERIF", None)
    repo = os.environ.get("VF_REPO", "/repo")
    cmd = ["/venv/bin/python", "-m", "pytest", "-ra", "-q", "-p", "no:cacheprovider", "--timeout=900",
           "--continue-on-collection-errors", "--junitxml=" + out] + paths
    subprocess.run(cmd, cwd=repo, env=env, stdout=subprocess.DEVNULL, stderr=subprocess.DEVNULL)
    passed = set()
    seen = set()
    for tc in ET.parse(out).getroot().iter("testcase"):
        name = "%s::%s" % (tc.get("classname"), tc.get("name"))
        seen.add(name)
        if not any(ch.tag in ("failure", "error", "skipped") for ch in tc):
            passed.add(name)
    os.unlink(out)
    def in_scope(t: str) -> bool:
        if not paths:
            return True
        mod = t.split("::")[0]
        for p in paths:
            m = p.rstrip("/").replace("/", ".")
            if m.endswith(".py"):
                m = m[:-3]
                if mod == m or mod.startswith(m + "."):      # module, or a test class in it
                    return True
            elif mod == m or mod.startswith(m + "."):
                return True
        return False

    scope = {t for t in stable if in_scope(t)}
    lost = sorted(scope - passed)
    # two randomised families lose one (random) parameter pair per run on the unchanged tree as well: hypothesis draws
    # without a fixed seed.  At most one pair of a family is tolerated and reported as FLAKY, never silently.
    import re

    fams = [r"tests\.strategies\.test_strategies::test_check_nullable_field_strategy\[(True|False)-index_strategy-data_type\d+\]",
            r"tests\.pyspark\..*::test_nullable\[dtype\d+\]"]
    flaky = []
    for f in fams:
        hit = [t for t in lost if re.fullmatch(f, t)]
        if 0 < len(hit) <= 2:
            flaky += hit
    lost = [t for t in lost if t not in flaky]
    for t in flaky:
        print("FLAKY", t)
    print("baseline subset: %d stable tests in scope, %d passed, %d lost" % (len(scope), len(scope & passed), len(lost)))
    for t in lost[:40]:
        print("LOST", t)
    return 1 if lost else 0


if __name__ == "__main__":
    sys.exit(main(sys.argv[1:]))
