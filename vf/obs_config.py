"""Replay configuration histories (Config.tla behaviours) into pandera.config."""
from __future__ import annotations

import os
from typing import Any, Dict, List


class _Unwind(Exception):
    """the exception a history step throws through a config_context block"""


def _cfg(c) -> Dict[str, Any]:
    d = c.validation_depth
    return {"enabled": bool(c.validation_enabled), "depth": "None" if d is None else d.name,
            "cache": bool(c.cache_dataframe), "keep": bool(c.keep_cached_dataframe)}


def _observe(res: str) -> Dict[str, Any]:
    from pandera import config

    return {"ctx": _cfg(config.get_config_context()),
            "raw_depth": _cfg(config.get_config_context(validation_depth_default=None))["depth"],
            "global": _cfg(config.get_config_global()), "res": res}


def _opts(o: Dict[str, str]) -> Dict[str, Any]:
    from pandera.config import ValidationDepth

    kw: Dict[str, Any] = {}
    if o["enabled"] != "None":
        kw["validation_enabled"] = o["enabled"] == "T"
    if o["depth"] != "None":
        kw["validation_depth"] = ValidationDepth[o["depth"]]
    if o["cache"] != "None":
        kw["cache_dataframe"] = o["cache"] == "T"
    if o["keep"] != "None":
        kw["keep_cached_dataframe"] = o["keep"] == "T"
    return kw


def _polars_validate(kind: str, scope: str) -> str:
    import polars as pl
    import pandera as pa
    import pandera.polars as pap
    from pandera.errors import SchemaError, SchemaErrors

    schema = pap.DataFrameSchema({"a": pap.Column(pl.Int64, pa.Check.gt(0))})
    df = pl.DataFrame({"a": [1, -1]}) if scope == "data" else pl.DataFrame({"a": [1.0, 2.0]})
    obj = df.lazy() if kind == "lazyframe" else df
    try:
        out = schema.validate(obj)
        if isinstance(out, pl.LazyFrame):
            out.collect()
        return "returned"
    except (SchemaError, SchemaErrors):
        return "rejected"


def _polars_column_validate(kind: str, scope: str) -> str:
    import polars as pl
    import pandera as pa
    import pandera.polars as pap
    from pandera.errors import SchemaError, SchemaErrors

    col = pap.Column(pl.Int64, pa.Check.gt(0), name="a")
    df = pl.DataFrame({"a": [1, -1]}) if scope == "data" else pl.DataFrame({"a": [1.0, 2.0]})
    obj = df.lazy() if kind == "lazyframe" else df
    try:
        out = col.validate(obj)
        if isinstance(out, pl.LazyFrame):
            out.collect()
        return "returned"
    except (SchemaError, SchemaErrors):
        return "rejected"


def _pandas_validate(scope: str) -> str:
    import pandas as pd
    import pandera as pa
    from pandera.errors import SchemaError, SchemaErrors

    schema = pa.SeriesSchema("int64", pa.Check.gt(0))
    obj = pd.Series([1, -1]) if scope == "data" else pd.Series([1.0, 2.0])
    try:
        out = schema.validate(obj)
        return "returned"
    except (SchemaError, SchemaErrors):
        return "rejected"


def observe_config(vec: Dict[str, Any]) -> Dict[str, Any]:
    from pandera import config

    # the worker was started with the vector's environment (see props/c18.py); check it
    want_env = env_vars(vec["env"])
    for k in ("PANDERA_VALIDATION_ENABLED", "PANDERA_VALIDATION_DEPTH", "PANDERA_CACHE_DATAFRAME", "PANDERA_KEEP_CACHED_DATAFRAME"):
        if os.environ.get(k) != want_env.get(k):
            raise RuntimeError("worker environment does not match the vector (%s)" % k)
    config.reset_config_context()
    ops: List[Dict[str, Any]] = vec["hist"]
    out: List[Dict[str, Any]] = []

    def run(i: int) -> int:
        """execute ops from i until the exit that closes the current block; returns the index after it"""
        while i < len(ops):
            op = ops[i]
            if op["op"] == "enter":
                try:
                    with config.config_context(**_opts(op["opts"])):
                        out.append(_observe("none"))
                        i = run(i + 1)
                        # run() returned at the matching exit op (index i-1)
                        if ops[i - 1]["op"] == "exit" and ops[i - 1]["exc"]:
                            raise _Unwind()
                except _Unwind:
                    pass
                out.append(_observe("none"))      # observation after the exit op
            elif op["op"] == "exit":
                return i + 1
            elif op["op"] == "polars_validate":
                out.append(_observe(_polars_validate(op["kind"], op["scope"])))
                i += 1
            elif op["op"] == "polars_column_validate":
                out.append(_observe(_polars_column_validate(op["kind"], op["scope"])))
                i += 1
            elif op["op"] == "pandas_validate":
                out.append(_observe(_pandas_validate(op["scope"])))
                i += 1
            else:
                raise ValueError(op)
        return i

    run(0)
    config.reset_config_context()
    return {"obs": out}


def env_vars(e: Dict[str, str]) -> Dict[str, str]:
    m = {"enabled": "PANDERA_VALIDATION_ENABLED", "depth": "PANDERA_VALIDATION_DEPTH",
         "cache": "PANDERA_CACHE_DATAFRAME", "keep": "PANDERA_KEEP_CACHED_DATAFRAME"}
    return {m[k]: v for k, v in e.items() if v != "unset"}
