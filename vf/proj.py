"""Project concrete results (objects, exceptions) back to abstract JSON.

Representation only.  A value that has no abstract counterpart is projected to
["?", repr] so that it can never compare equal to a prediction.
"""
from __future__ import annotations

import math
from typing import Any, Dict, List

from . import conc


def aval(x: Any) -> List[Any]:
    import numpy as np
    import pandas as pd

    if x is None or x is pd.NA or x is pd.NaT:
        return ["na", 0]
    if isinstance(x, (bool, np.bool_)):
        return ["b", int(bool(x))]
    if isinstance(x, (int, np.integer)):
        return ["i", int(x)]
    if isinstance(x, (float, np.floating)):
        if math.isnan(x):
            return ["na", 0]
        h = x * 2
        if h == int(h) and abs(h) < 2**31:
            return ["f", int(h)]
        return ["?", repr(float(x))]
    if isinstance(x, str):
        try:
            return ["s", conc.TABLES["str"].index(x) + 1]
        except ValueError:
            return ["?", x]
    if isinstance(x, tuple):
        return ["t", [aval(y) for y in x]]
    return ["?", repr(x)]


def norm(v: List[Any]) -> Any:
    """numeric-kind-insensitive form used when comparing values (1 == 1.0)."""
    if v[0] == "i":
        return ("n", 2 * v[1])
    if v[0] == "f":
        return ("n", v[1])
    if v[0] == "b":
        return ("b", v[1])
    if v[0] == "t":
        return ("t", tuple(norm(x) for x in v[1]))
    return (v[0], v[1])


def pd_kind(dtype) -> str:
    s = str(dtype)
    return s


def field(obj) -> Dict[str, Any]:
    """pandas Series -> abstract field"""
    return {
        "name": aval(obj.name),
        "pd": pd_kind(obj.dtype),
        "cells": [aval(x) for x in obj.tolist()] if str(obj.dtype) != "object" else [aval(x) for x in obj.to_numpy(dtype=object)],
        "idx": index(obj.index),
        "idxpd": pd_kind(obj.index.dtype) if not hasattr(obj.index, "levels") else "multi",
    }


def index(ix) -> List[Any]:
    import pandas as pd

    if isinstance(ix, pd.MultiIndex):
        return [[aval(x) for x in t] for t in ix.tolist()]
    return [aval(x) for x in ix.tolist()]


def frame(df) -> Dict[str, Any]:
    cols = []
    for i, c in enumerate(df.columns):
        s = df.iloc[:, i]
        cols.append({"name": aval(c), "pd": pd_kind(s.dtype),
                     "cells": [aval(x) for x in s.to_numpy(dtype=object)]})
    return {"cols": cols, "idx": index(df.index),
            "idxpd": pd_kind(df.index.dtype) if not hasattr(df.index, "levels") else "multi"}


def snapshot(obj) -> Any:
    """Deep, bit-level snapshot of a pandas object for before/after comparison."""
    import numpy as np
    import pandas as pd

    def arr(a):
        a = np.asarray(a)
        if a.dtype == object:
            return ("object", [(type(x).__name__, repr(x)) for x in a.tolist()])
        return (str(a.dtype), a.tobytes())

    def ix(i):
        if isinstance(i, pd.MultiIndex):
            return ("mi", tuple(i.names), [arr(i.get_level_values(k)) for k in range(i.nlevels)],
                    [str(i.get_level_values(k).dtype) for k in range(i.nlevels)])
        return ("ix", type(i).__name__, str(i.dtype), i.name, arr(i.to_numpy()))

    if isinstance(obj, pd.Series):
        return ("series", str(obj.dtype), obj.name, arr(obj.to_numpy(dtype=object) if str(obj.dtype) not in ("int64", "float64", "bool") else obj.to_numpy()), ix(obj.index))
    if isinstance(obj, pd.DataFrame):
        return ("frame", [repr(c) for c in obj.columns], [str(t) for t in obj.dtypes],
                [arr(obj.iloc[:, k].to_numpy(dtype=object) if str(obj.dtypes.iloc[k]) not in ("int64", "float64", "bool") else obj.iloc[:, k].to_numpy()) for k in range(obj.shape[1])],
                ix(obj.index), ix(obj.columns))
    return ("other", repr(obj))


def schema_error(e) -> Dict[str, Any]:
    """one SchemaError -> abstract error record"""
    import pandas as pd

    fc = e.failure_cases
    rec: Dict[str, Any] = {
        "reason": e.reason_code.name if e.reason_code is not None else None,
        "ci": -1 if e.check_index is None else int(e.check_index),
    }
    if isinstance(fc, pd.DataFrame):
        rec["scalar"] = False
        cases = []
        has_col = "column" in fc.columns
        for _, row in fc.iterrows():
            lab = row["index"] if "index" in fc.columns else None
            item = [label(lab), aval(row["failure_case"])]
            if has_col:
                item.append(aval(row["column"]))
            cases.append(item)
        rec["cases"] = cases
        rec["sval"] = ""
    else:
        rec["scalar"] = True
        rec["cases"] = []
        rec["sval"] = fc if isinstance(fc, str) else repr(fc)
    return rec


def label(lab) -> List[Any]:
    """index label as found in failure cases (MultiIndex labels are stringified tuples)"""
    if isinstance(lab, str) and lab.startswith("(") and lab.endswith(")"):
        try:
            t = eval(lab, {"nan": float("nan"), "None": None})  # noqa: S307 - mirrors pandera
            if isinstance(t, tuple):
                return aval(t)
        except Exception:  # noqa: BLE001
            pass
    return aval(lab)


def lazy_report(e) -> Dict[str, Any]:
    """SchemaErrors -> the parts of the report C02 speaks about"""
    fc = e.failure_cases
    rows = []
    for _, row in fc.iterrows():
        rows.append({
            "column": aval(row["column"]),
            "cn": -1 if row["check_number"] is None or row["check_number"] != row["check_number"] else int(row["check_number"]),
            "case": aval(row["failure_case"]),
            "index": label(row["index"]),
            "ctx": row["schema_context"],
        })
    return {"rows": rows, "counts": {k: int(v) for k, v in dict(e.error_counts).items()}}


CHECK_NAMES = {"equal_to": "eq", "not_equal_to": "ne", "greater_than": "gt", "greater_than_or_equal_to": "ge",
               "less_than": "lt", "less_than_or_equal_to": "le", "in_range": "in_range", "isin": "isin", "notin": "notin",
               "str_matches": "str_matches", "str_contains": "str_contains", "str_startswith": "str_startswith",
               "str_endswith": "str_endswith", "str_length": "str_length", "unique_values_eq": "unique_values_eq"}


def check(c) -> Dict[str, Any]:
    """a pandera Check -> abstract check record (built-ins only; anything else is unprojectable)"""
    k = CHECK_NAMES.get(c.name)
    st = dict(c.statistics or {})
    st.pop("options", None)
    if k is None:
        return {"k": "?", "name": str(c.name)}
    if k in ("eq", "ne"):
        a = [aval(st.get("value"))]
    elif k in ("gt", "ge"):
        a = [aval(st.get("min_value"))]
    elif k in ("lt", "le"):
        a = [aval(st.get("max_value"))]
    elif k == "in_range":
        a = [aval(st.get("min_value")), aval(st.get("max_value")), aval(bool(st.get("include_min", True))), aval(bool(st.get("include_max", True)))]
    elif k in ("isin", "notin"):
        vals = st.get("allowed_values", st.get("forbidden_values"))
        a = [aval(x) for x in list(vals)]
    elif k == "str_length":
        a = [aval(st.get("min_value")), aval(st.get("max_value"))]
    elif k in ("str_matches", "str_contains"):
        pat = st.get("pattern")
        pat = getattr(pat, "pattern", pat)
        try:
            a = [["re", conc.TABLES["re"].index(pat) + 1]]
        except ValueError:
            a = [["?", pat]]
    elif k in ("str_startswith", "str_endswith"):
        a = [aval(st.get("string"))]
    else:
        a = [aval(x) for x in list(st.get("values", []))]
    return {"k": k, "a": a, "ina": bool(c.ignore_na), "nfc": int(c.n_failure_cases or 0),
            "warn": bool(c.raise_warning), "ew": bool(getattr(c, "element_wise", False))}


DT_NAMES = {"int64": "int64", "float64": "float64", "str": "str", "object": "object", "bool": "bool", "None": "none",
            "Int64": "Int64", "datetime64[ns]": "datetime"}


def dtype_name(dt) -> str:
    return DT_NAMES.get(str(dt), str(dt))


def component(c, key=None, column: bool = True) -> Dict[str, Any]:
    """a pandera Column / Index -> abstract record with every attribute it carries"""
    d = getattr(c, "default", None)
    rec = {"key": aval(key if key is not None else c.name), "dtype": dtype_name(c.dtype), "nullable": bool(c.nullable),
           "unique": bool(c.unique), "report": c.report_duplicates, "coerce": bool(c.coerce),
           "default": aval(None if d is None or d != d else d), "title": c.title is not None, "desc": c.description is not None,
           "meta": c.metadata is not None, "drop": bool(getattr(c, "drop_invalid_rows", False)),
           "checks": [check(x) for x in c.checks]}
    if column:
        rec["required"] = bool(c.required)
        rec["regex"] = bool(c.regex)
    return rec
