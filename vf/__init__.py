"""Harness binding the TLA+ specification in ../spec to the pandera sources in /repo."""
