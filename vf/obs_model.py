"""Replay Model.tla histories: generate the classes, call to_schema in the order of the history, project (C16)."""
from __future__ import annotations

import warnings
from typing import Any, Dict, List, Optional

PANDAS_HEADER = """
import pandas as pd
import pandera as pa
from typing import Optional
from pandera.typing import Series, Index
Base = pa.DataFrameModel
"""
POLARS_HEADER = """
import polars as pl
import pandera.polars as pa
from typing import Optional
from pandera.typing.polars import Series
Base = pa.DataFrameModel
"""

FIELD_SRC = {"omitted": None, "default": "pa.Field()", "ge0": "pa.Field(ge=0)", "ge0_nona": "pa.Field(ge=0, nullable=True, ignore_na=False)", "ge1_le5": "pa.Field(ge=1, le=5)",
             "nullable_coerce": "pa.Field(nullable=True, coerce=True)", "alias_x": "pa.Field(alias='x')",
             "unique": "pa.Field(unique=True)"}
REGISTER_SRC = """
import pandera.extensions as _ext
if not hasattr(pa.Check, "sum_le"):
    @_ext.register_check_method(statistics=["limit"])
    def sum_le(obj, *, limit):
        if hasattr(obj, "lazyframe"):                       # polars: PolarsData
            import polars as _pl
            num = [c for c, t in obj.lazyframe.collect_schema().items() if t.is_numeric()]
            tot = obj.lazyframe.select([_pl.col(c).sum() for c in num]).collect().row(0) if num else (0,)
            return sum(x or 0 for x in tot) <= limit
        return float(obj.select_dtypes("number").sum().sum()) <= limit
"""
CFG_SRC = {"sum_le": {"100": "{'limit': 100}", "5": "{'limit': 5}"},
           "strict": {"T": "True", "F": "False", "filter": "'filter'"}, "coerce": {"T": "True", "F": "False"},
           "ordered": {"T": "True", "F": "False"}, "add_missing_columns": {"T": "True", "F": "False"},
           "multiindex_strict": {"T": "True", "F": "False"}, "multiindex_coerce": {"T": "True", "F": "False"},
           "name": {"nm": "'nm'", "kid": "'kid'"}}


# predicate families: pandas functions take a Series / DataFrame, polars ones a PolarsData
def _pd_preds():
    return {"pos": lambda s: s > 0, "even": lambda s: s % 2 == 0}, \
           {"sum_pos": lambda df: True, "first_even": lambda df: len(df) % 2 == 0}, \
           {"abs": lambda s: s.abs(), "plus1": lambda s: s + 1}


def _pl_preds():
    import polars as pl

    return {"pos": lambda d: d.lazyframe.select(pl.col(d.key) > 0), "even": lambda d: d.lazyframe.select(pl.col(d.key) % 2 == 0)}, \
           {"sum_pos": lambda d: True, "first_even": lambda d: d.lazyframe.collect().height % 2 == 0}, \
           {"abs": lambda d: d.lazyframe.with_columns(pl.col(d.key).abs()), "plus1": lambda d: d.lazyframe.with_columns(pl.col(d.key) + 1)}


def key_of_a(prog: List[Dict[str, Any]], k: int) -> Optional[str]:
    """the name under which a method of class k addresses field a (the key a has in that class)"""
    chain = []
    j = k
    while j:
        chain.append(j)
        j = prog[j - 1]["parent"]
    for j in chain:                      # leaf first
        fa = prog[j - 1]["fa"]
        if fa["ann"] != "inherit":
            return "x" if fa["fld"] == "alias_x" else "a"
    return None


def class_source(prog: List[Dict[str, Any]], k: int) -> str:
    c = prog[k - 1]
    lines = ["class M%d(%s):" % (k, "Base" if c["parent"] == 0 else "M%d" % c["parent"])]
    body: List[str] = []
    for attr, f in (("a", c["fa"]), ("b", c["fb"])):
        if f["ann"] == "inherit":
            continue
        rhs = FIELD_SRC[f["fld"]]
        body.append("%s: %s%s" % (attr, f["ann"], "" if rhs is None else " = " + rhs))
    if c["cfg"]:
        body.append("class Config:")
        for name, val in c["cfg"]:
            body.append("    %s = %s" % (name, CFG_SRC[name][val]))
    target = key_of_a(prog, k)
    if c["chk"]["pred"] != "none":
        body.append("@pa.check(%r%s)" % (target, ", name='custom_name'" if c["chk"]["named"] else ""))
        body.append("def chk(cls, s):")
        body.append("    return PRED[%r](s)" % c["chk"]["pred"])
    if c["dfc"]["pred"] != "none":
        body.append("@pa.dataframe_check")
        body.append("def dfc(cls, df):")
        body.append("    return DFPRED[%r](df)" % c["dfc"]["pred"])
    if c["prs"]["pred"] != "none":
        body.append("@pa.parser(%r)" % target)
        body.append("def prs(cls, s):")
        body.append("    return PARSE[%r](s)" % c["prs"]["pred"])
    if not body:
        body.append("pass")
    return "\n".join(lines + ["    " + b for b in body]) + "\n"


DT = {"int64": "int64", "float64": "float64", "str": "str", "Int64": "int64", "Float64": "float64", "String": "str", "object": "str"}


def _sig_pandas(fn, frame_level: bool):
    import pandas as pd

    try:
        if frame_level:
            r = [fn(pd.DataFrame({"q": [1]})), fn(pd.DataFrame({"q": [1, 2]}))]
            return [bool(x) for x in r]
        return [bool(x) for x in fn(pd.Series([-1, 2, 3]))]
    except Exception as e:  # noqa: BLE001
        return "raises:%s" % type(e).__name__


def _sig_polars(fn, frame_level: bool):
    import polars as pl
    from pandera.api.polars.types import PolarsData

    try:
        if frame_level:
            r = [fn(PolarsData(pl.LazyFrame({"q": [1]}), "*")), fn(PolarsData(pl.LazyFrame({"q": [1, 2]}), "*"))]
            return [bool(x) for x in r]
        out = fn(PolarsData(pl.LazyFrame({"q": [-1, 2, 3]}), "q"))
        return [bool(x) for x in out.collect().to_series().to_list()]
    except Exception as e:  # noqa: BLE001
        return "raises:%s" % type(e).__name__


CHECK_SIG = {"[False, True, True]": "pos", "[False, True, False]": "even"}
DF_SIG = {"[True, True]": "sum_pos", "[False, True]": "first_even"}


def _parse_sig(fn, backend: str):
    try:
        if backend == "pandas":
            import pandas as pd

            r = list(fn(pd.Series([-1, 2])))
        else:
            import polars as pl
            from pandera.api.polars.types import PolarsData

            r = fn(PolarsData(pl.LazyFrame({"q": [-1, 2]}), "q")).collect()["q"].to_list()
        return {"[1, 2]": "abs", "[0, 3]": "plus1"}.get(str([int(x) for x in r]), "other:%s" % r)
    except Exception as e:  # noqa: BLE001
        return "raises:%s" % type(e).__name__


def p_check(c, backend: str, frame_level: bool) -> Dict[str, Any]:
    st = c.statistics or {}
    if c.name == "greater_than_or_equal_to":
        return {"k": "ge", "arg": st.get("min_value"), "ina": bool(c.ignore_na)}
    if c.name == "less_than_or_equal_to":
        return {"k": "le", "arg": st.get("max_value"), "ina": bool(c.ignore_na)}
    if c.name == "sum_le":
        return {"k": "registered", "name": "sum_le", "arg": str(st.get("limit"))}
    sig = (_sig_pandas if backend == "pandas" else _sig_polars)(c._check_fn, frame_level)
    table = DF_SIG if frame_level else CHECK_SIG
    return {"k": "custom", "pred": table.get(str(sig), "other:%s" % (sig,)), "name": c.name}


def p_comp(c, backend: str, key, column: bool) -> Dict[str, Any]:
    d = str(c.dtype)
    rec = {"key": key, "dtype": DT.get(d, d), "nullable": bool(c.nullable), "unique": bool(c.unique), "coerce": bool(c.coerce),
           "required": bool(getattr(c, "required", True)), "checks": [p_check(x, backend, False) for x in c.checks],
           "parsers": [_parse_sig(p._parser_fn if hasattr(p, "_parser_fn") else p.parser_fn, backend) for p in (getattr(c, "parsers", None) or [])]}
    return rec


def project(schema, backend: str, clsname: str) -> Dict[str, Any]:
    levels: List[Dict[str, Any]] = []
    ix = getattr(schema, "index", None)
    if ix is not None:
        if hasattr(ix, "indexes"):
            levels = [p_comp(l, backend, l.name, False) for l in ix.indexes]
        else:
            levels = [p_comp(ix, backend, "none" if ix.name is None else ix.name, False)]
    strict = {False: "F", True: "T", "filter": "filter"}.get(schema.strict, str(schema.strict))
    tf = lambda b: "T" if b else "F"  # noqa: E731
    return {"cols": [p_comp(c, backend, k, True) for k, c in schema.columns.items()], "index": levels,
            "checks": [p_check(x, backend, True) for x in schema.checks], "strict": strict, "coerce": tf(schema.coerce),
            "ordered": tf(schema.ordered), "name": "class" if schema.name == clsname else schema.name,
            "amc": tf(getattr(schema, "add_missing_columns", False)),
            "mi": {"strict": tf(ix.strict), "coerce": tf(ix._coerce)} if ix is not None and hasattr(ix, "indexes") else {"strict": "-", "coerce": "-"}}


def build_object_api(rec: Dict[str, Any], backend: str, ns: Dict[str, Any], clsname: str):
    """the object-API schema described by the specification's prediction"""
    pa = ns["pa"]
    PRED, DFPRED, PARSE = ns["PRED"], ns["DFPRED"], ns["PARSE"]
    dts = {"int64": int, "float64": float, "str": str}

    def checks(cs, frame):
        out = []
        for c in cs:
            if c["k"] == "ge":
                out.append(pa.Check.ge(c["arg"], ignore_na=c["ina"]))
            elif c["k"] == "le":
                out.append(pa.Check.le(c["arg"], ignore_na=c["ina"]))
            elif c["k"] == "registered":
                out.append(getattr(pa.Check, c["name"])(limit=int(c["arg"])))
            else:
                out.append(pa.Check((DFPRED if frame else PRED)[c["pred"]], name=c["name"]))
        return out

    def comp(c, column):
        kw = dict(checks=checks(c["checks"], False), nullable=c["nullable"], unique=c["unique"], coerce=c["coerce"])
        if column:
            if c["parsers"]:
                kw["parsers"] = [pa.Parser(PARSE[p]) for p in c["parsers"]]
            return pa.Column(dts[c["dtype"]], required=c["required"], **kw)
        return pa.Index(dts[c["dtype"]], name=None if c["key"] == "none" else c["key"], **kw)

    cols = {c["key"]: comp(c, True) for c in rec["cols"]}
    kw: Dict[str, Any] = {}
    if rec["index"]:
        lv = [comp(c, False) for c in rec["index"]]
        kw["index"] = lv[0] if len(lv) == 1 else pa.MultiIndex(lv, strict=rec["mi"]["strict"] == "T", coerce=rec["mi"]["coerce"] == "T")
    kw["add_missing_columns"] = rec["amc"] == "T"
    return pa.DataFrameSchema(cols, checks=checks(rec["checks"], True), strict={"F": False, "T": True, "filter": "filter"}[rec["strict"]],
                              coerce=rec["coerce"] == "T", ordered=rec["ordered"] == "T",
                              name=clsname if rec["name"] == "class" else rec["name"], **kw)


def probes(rec: Dict[str, Any], backend: str):
    import pandas as pd

    keys = [c["key"] for c in rec["cols"]]
    ka = next((k for k in keys if k in ("a", "x")), None)
    base = {}
    frames = []
    vals_a = [[1, 2], [-1, 4], [2, 2], [3, 7], [1.5, 2.0], [None, 2.0]]
    for va in vals_a:
        d = {}
        if ka:
            d[ka] = va
        if "b" in keys:
            d["b"] = ["p", "q"]
        if not d:
            d["z"] = [0, 1]
        frames.append(pd.DataFrame(d))
    extra = pd.DataFrame({**({ka: [2, 4]} if ka else {}), **({"b": ["p", None]} if "b" in keys else {}), "zz": [0, 0]})
    frames.append(extra)
    if "b" in keys and ka:
        frames.append(pd.DataFrame({"b": ["p", "q"], ka: [2, 4]}))
        frames.append(pd.DataFrame({ka: [2, 4]}))
    if len(rec["index"]) == 1:
        more = []
        for f in frames[:4]:
            g = f.copy()
            g.index = pd.Index([2, 4], name=None)
            more.append(g)
            h = f.copy()
            h.index = pd.Index([-1, 3], name=None)
            more.append(h)
        frames += more
    elif len(rec["index"]) > 1:
        names = [l["key"] for l in rec["index"]]
        more = []
        for f in frames[:4]:
            for lv0 in ([2, 4], [-1, 3], ["2", "4"]):
                g = f.copy()
                g.index = pd.MultiIndex.from_arrays([lv0, ["p", "q"]], names=names)
                more.append(g)
            g = f.copy()
            g.index = pd.MultiIndex.from_arrays([[2, 4], ["p", "q"], [0, 0]], names=names + ["zz"])     # a foreign level
            more.append(g)
            g = f.copy()
            g.index = pd.MultiIndex.from_arrays([["p", "q"], [2, 4]], names=names[::-1])                 # the other order
            more.append(g)
        frames += more
    if backend == "polars":
        import polars as pl

        out = []
        for f in frames:
            try:
                out.append(pl.from_pandas(f))
            except Exception:  # noqa: BLE001
                pass
        return out
    return frames


def verdict(validate, df, backend: str) -> str:
    import pandera as pa0

    try:
        with warnings.catch_warnings():
            warnings.simplefilter("ignore")
            out = validate(df.clone() if backend == "polars" else df.copy(), lazy=True)
        if backend == "polars":
            return "ok|%s|%s" % (out.columns, out.rows())
        return "ok|%s|%s|%s" % (list(out.columns), out.astype(object).where(out.notna(), None).values.tolist(), list(out.index))
    except pa0.errors.SchemaErrors as e:
        return "errors|" + ",".join(sorted("%s:%s" % (x.reason_code.name, getattr(x.check, "name", x.check) if not isinstance(x.check, str) else x.check.split("(")[0])
                                           for x in e.schema_errors))
    except pa0.errors.SchemaError as e:
        return "error|" + e.reason_code.name
    except Exception as e:  # noqa: BLE001
        return "raise|" + type(e).__name__


_COUNTER = [0]


def observe_model(vec: Dict[str, Any]) -> Dict[str, Any]:
    backend = vec["backend"]
    prog = vec["prog"]
    out: Dict[str, Any] = {"steps": [], "final": [], "verdicts": [], "skipped": None}
    if backend == "polars" and any(c[f]["ann"].startswith("Index[") for c in prog for f in ("fa", "fb")):
        out["skipped"] = "polars has no Index annotation"
        return out
    if backend == "polars" and any(c["prs"]["pred"] != "none" for c in prog):
        out["skipped"] = "pandera.polars has no parser decorator"
        return out
    with warnings.catch_warnings():
        warnings.simplefilter("ignore")
        # the classes live in a real module so that typing.get_type_hints can resolve their annotations
        import sys
        import types

        _COUNTER[0] += 1
        mod = types.ModuleType("vf_models_%d" % _COUNTER[0])
        sys.modules[mod.__name__] = mod
        ns: Dict[str, Any] = mod.__dict__
        exec(PANDAS_HEADER if backend == "pandas" else POLARS_HEADER, ns)  # noqa: S102
        exec(REGISTER_SRC, ns)  # noqa: S102 - a registered check method, named by Config attributes
        ns["PRED"], ns["DFPRED"], ns["PARSE"] = _pd_preds() if backend == "pandas" else _pl_preds()
        sources = {}
        for op, k in vec["hist"]:
            if op == "define":
                src = class_source(prog, k)
                sources[k] = src
                try:
                    exec(src, ns)  # noqa: S102 - generated model classes are the programs under test
                    out["steps"].append({"op": "define", "cls": k})
                except Exception as e:  # noqa: BLE001
                    out["steps"].append({"op": "define", "cls": k, "error": type(e).__name__, "detail": str(e)[:200]})
                    out["source"] = src
                    return out
            else:
                out["steps"].append(_compile(ns, k, backend))
        for k in range(1, len(prog) + 1):
            if "M%d" % k in ns:
                out["final"].append(_compile(ns, k, backend))
        # verdicts: the model against the object-API schema built from the specification's prediction
        for k in range(1, len(prog) + 1):
            rec = vec["final"][k - 1]
            if "error" in rec or "M%d" % k not in ns:
                continue
            try:
                obj = build_object_api(rec, backend, ns, "M%d" % k)
            except Exception as e:  # noqa: BLE001
                out["verdicts"].append({"cls": k, "build_error": "%s: %s" % (type(e).__name__, str(e)[:120])})
                continue
            model = ns["M%d" % k]
            diffs = []
            n = 0
            for i, df in enumerate(probes(rec, backend)):
                n += 1
                a = verdict(model.validate, df, backend)
                b = verdict(obj.validate, df, backend)
                if a != b:
                    diffs.append([i, a[:200], b[:200]])
            out["verdicts"].append({"cls": k, "probes": n, "diffs": diffs[:3]})
        out["sources"] = {str(k): v for k, v in sources.items()}
        sys.modules.pop(mod.__name__, None)
    return out


def _compile(ns: Dict[str, Any], k: int, backend: str) -> Dict[str, Any]:
    import pandera as pa0

    try:
        sch = ns["M%d" % k].to_schema()
        sch2 = ns["M%d" % k].to_schema()
        return {"op": "to_schema", "cls": k, "schema": project(sch, backend, "M%d" % k), "again_equal": bool(sch == sch2)}
    except pa0.errors.SchemaInitError as e:
        return {"op": "to_schema", "cls": k, "error": "SchemaInitError", "detail": str(e)[:160]}
    except Exception as e:  # noqa: BLE001
        return {"op": "to_schema", "cls": k, "error": type(e).__name__, "detail": str(e)[:160]}
