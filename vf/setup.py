"""`check --setup`: parse every specification module with SANY and check the tool chain.  Fetches nothing."""
from __future__ import annotations

import subprocess
import sys
from pathlib import Path

from . import tlc


def main() -> int:
    spec = tlc.SPEC
    bad = 0
    for f in sorted(spec.glob("*.tla")):
        try:
            tlc.sany(f.stem)
        except tlc.MachineryError as exc:
            print(exc, file=sys.stderr)
            bad += 1
    try:
        import pandera  # noqa: F401
        import jsonschema  # noqa: F401
    except Exception as exc:  # noqa: BLE001
        print("python environment incomplete: %s" % exc, file=sys.stderr)
        bad += 1
    (tlc.ROOT / "replays").mkdir(exist_ok=True)
    (tlc.ROOT / "evidence").mkdir(exist_ok=True)
    print("setup: %d modules parsed, %d problems" % (len(list(spec.glob('*.tla'))), bad))
    return 0 if bad == 0 else 2
