"""C13 recorder (code -> spec): draw from the real schema.strategy and log every draw.

``python -m vf.rec_strategy <out.json> <schemas.json> <tier> <seed>``

schemas.json: the "strategy" / "strategy_str" vectors enumerated by Strategy.tla.  For each one the
recorder builds the real schema (SeriesSchema, Column in a DataFrameSchema with an Index schema, Index,
regex column), draws a few examples with hypothesis (derandomised, health checks off, wall-clock cap)
and logs each draw: the RANKS of the drawn values relative to the constants of the checks (numeric
chains; the specification judges them), whether values repeat, and what the implementation's own
validator says.  Nothing is judged here.
"""
from __future__ import annotations

import json
import multiprocessing as mp
import os
import signal
import sys
import warnings
from typing import Any, Dict, List

def consts_of(dtype: str) -> List[Any]:
    """four increasing constants per dtype; the first is the dtype's ZERO (falsy bounds are a classic slip)"""
    import pandas as pd

    if dtype == "int64":
        return [0, 3, 5, 8]
    if dtype == "float64":
        return [0.0, 1.5, 3.0, 7.25]
    if dtype == "timedelta64[ns]":
        return [pd.Timedelta(0), pd.Timedelta(days=1), pd.Timedelta(days=2), pd.Timedelta(days=5)]
    if dtype == "datetime64[ns]":
        return [pd.Timestamp("1970-01-01"), pd.Timestamp("2000-01-01"), pd.Timestamp("2010-06-01"), pd.Timestamp("2020-01-01")]
    raise ValueError(dtype)


DTYPES = ["int64", "float64", "timedelta64[ns]", "datetime64[ns]"]
KINDS = ["series", "frame", "index", "regex", "framecheck", "series_idx", "mi_unique", "series_custom"]


def rank(v: Any, consts: List[Any]) -> int:
    import pandas as pd

    if v is None or (isinstance(v, float) and v != v) or v is pd.NA or v is pd.NaT:
        return -99
    try:
        if pd.isna(v):
            return -99
    except Exception:  # noqa: BLE001
        pass
    if v < consts[0]:
        return -1
    for i, c in enumerate(consts):
        if v == c:
            return 2 * i
        if i + 1 < len(consts) and c < v < consts[i + 1]:
            return 2 * i + 1
    return 7


def mk_check(c: Dict[str, Any], consts: List[Any], pa):
    k, a, b = c["k"], consts[c["a"]], consts[c["b"]]
    if k == "in_range":
        return pa.Check.in_range(a, b)
    if k == "in_range_open":
        return pa.Check.in_range(a, b, include_min=False, include_max=False)
    if k == "in_range_lo":
        return pa.Check.in_range(a, b, include_min=False)
    if k == "in_range_hi":
        return pa.Check.in_range(a, b, include_max=False)
    if k == "isin":
        return pa.Check.isin([a, b])
    if k == "notin":
        return pa.Check.notin([a, b])
    return getattr(pa.Check, k)(a)


def mk_str_check(name: str, pa):
    return {"str_matches": lambda: pa.Check.str_matches("a|b"), "str_contains": lambda: pa.Check.str_contains("b"),
            "str_startswith": lambda: pa.Check.str_startswith("a"), "str_endswith": lambda: pa.Check.str_endswith("b"),
            "str_length_max": lambda: pa.Check.str_length(max_value=3), "str_length_min": lambda: pa.Check.str_length(min_value=1),
            "str_length_both": lambda: pa.Check.str_length(1, 3), "isin": lambda: pa.Check.isin(["a", "ab"]),
            "eq": lambda: pa.Check.eq("ab"), "ne": lambda: pa.Check.ne("a"), "notin": lambda: pa.Check.notin(["a"])}[name]()


class _Timeout(KeyboardInterrupt):
    pass


def _alarm(signum, frame):
    raise _Timeout()


def draw(schema, size: int, n: int, seed: int, cap_s: int, **kw):
    from hypothesis import HealthCheck, Phase, given, settings
    from hypothesis import seed as hseed
    from hypothesis.errors import FailedHealthCheck, Unsatisfiable

    draws: List[Any] = []
    try:
        strat = schema.strategy(size=size, **kw)
    except Exception as e:  # noqa: BLE001
        return "strategy_error:%s" % type(e).__name__, draws, str(e)[:160]

    @hseed(seed)
    @settings(max_examples=n, database=None, deadline=None, suppress_health_check=list(HealthCheck), phases=[Phase.generate])
    @given(strat)
    def collect(x):
        draws.append(x)

    signal.signal(signal.SIGALRM, _alarm)
    signal.alarm(cap_s)
    try:
        collect()
        return "drawn", draws, ""
    except _Timeout:
        return ("drawn" if draws else "timeout"), draws, ""
    except Unsatisfiable:
        return ("drawn" if draws else "unsatisfiable"), draws, ""
    except FailedHealthCheck:
        return ("drawn" if draws else "unsatisfiable"), draws, ""
    except Exception as e:  # noqa: BLE001
        return ("drawn" if draws else "draw_error:%s" % type(e).__name__), draws, str(e)[:200]
    finally:
        signal.alarm(0)


def _one(job):
    idx, vec, tier, seed, only_kind = job
    import pandas as pd
    import pandera as pa

    warnings.filterwarnings("ignore")
    cap = 3 if tier == "quick" else 10
    n = 4 if tier == "quick" else 8
    out: Dict[str, Any] = {"idx": idx, "events": []}
    if vec["kind"] == "strategy_str":
        checks = [mk_str_check(c, pa) for c in vec["chain"]]
        kinds = [only_kind]
        dtype: Any = str
        consts = None
        cont = {"nullable": False, "unique": False, "size": 2}
    else:
        dtype = DTYPES[(idx // 8) % 4] if tier == "quick" else DTYPES[idx % 4]
        consts = consts_of(dtype)
        checks = [mk_check(c, consts, pa) for c in vec["chain"]]
        cont = vec["cont"]
        kinds = [only_kind]
    for kind in kinds:
        kw: Dict[str, Any] = {}
        if kind == "series":
            schema = pa.SeriesSchema(dtype, checks=checks, nullable=cont["nullable"], unique=cont["unique"], name="a")
            get = lambda d: d  # noqa: E731
        elif kind == "frame":
            schema = pa.DataFrameSchema({"a": pa.Column(dtype, checks=checks, nullable=cont["nullable"], unique=cont["unique"]),
                                         "b": pa.Column(int)}, index=pa.Index(int, unique=True, name="i"))
            get = lambda d: d["a"]  # noqa: E731
        elif kind == "series_custom":
            # a nullable series with a custom whole-series check that has no strategy of its own (the strategy falls
            # back to filtering): "every element is present".  The draw must then contain no null although the schema
            # is nullable - the specification judges it as a non-nullable draw.
            n_ = int(cont["size"])
            schema = pa.SeriesSchema(dtype, checks=checks + [pa.Check(lambda s, n_=n_: int(s.count()) >= n_, name="all_present")],
                                     nullable=True, unique=cont["unique"], name="a")
            get = lambda d: d  # noqa: E731
        elif kind == "series_idx":
            # a SeriesSchema that also constrains its index
            schema = pa.SeriesSchema(dtype, checks=checks, nullable=cont["nullable"], unique=cont["unique"], name="a",
                                     index=pa.Index(int, pa.Check.ge(0), name="i"))
            get = lambda d: d  # noqa: E731
        elif kind == "mi_unique":
            # the index is a MultiIndex whose two levels are jointly unique
            schema = pa.DataFrameSchema({"a": pa.Column(dtype, checks=checks, nullable=cont["nullable"], unique=cont["unique"])},
                                        index=pa.MultiIndex([pa.Index(int, pa.Check.in_range(0, 2), name="p"),
                                                             pa.Index(int, pa.Check.in_range(0, 2), name="q")], unique=["p", "q"]))
            get = lambda d: d["a"]  # noqa: E731
        elif kind == "framecheck":
            # the LAST check of the chain is declared at dataframe level (it applies to every column: there is only "a")
            schema = pa.DataFrameSchema({"a": pa.Column(dtype, checks=checks[:-1], nullable=cont["nullable"], unique=cont["unique"])},
                                        checks=checks[-1:])
            get = lambda d: d["a"]  # noqa: E731
        elif kind == "index":
            schema = pa.DataFrameSchema({"b": pa.Column(int)}, index=pa.Index(dtype, checks=checks, nullable=False,
                                                                             unique=cont["unique"], name="a"))
            get = lambda d: d.index.to_series()  # noqa: E731
        else:
            schema = pa.DataFrameSchema({"a_.*": pa.Column(dtype, checks=checks, nullable=cont["nullable"], unique=cont["unique"],
                                                          regex=True)})
            kw = {"n_regex_columns": 2}
            get = lambda d: d[d.columns[0]]  # noqa: E731
        nullable_here = cont["nullable"] and kind not in ("index", "series_custom")
        outcome, draws, detail = draw(schema, cont["size"], n, seed, cap, **kw)
        ev = {"sid": idx, "kind": kind, "dtype": str(dtype), "outcome": outcome, "detail": detail, "draws": []}
        for d in draws:
            try:
                col = get(d)
                vals = list(col)
                rec: Dict[str, Any] = {"size": len(vals), "has_duplicates": bool(pd.Series(vals).duplicated().any()),
                                       "has_nonnull_duplicates": bool(pd.Series(vals).dropna().duplicated().any()),
                                       "has_null": bool(pd.Series(vals).isna().any()),
                                       "physical_dtype": str(col.dtype)}
                if consts is not None:
                    rec["ranks"] = [rank(v, consts) for v in vals]
                    rec["values"] = [None if rank(v, consts) == -99 else (float(v) if dtype == "float64" else int(v) if dtype == "int64" else str(v))
                                     for v in vals][:6]
                else:
                    rec["values"] = [None if (v is None or v != v) else str(v)[:12] for v in vals][:6]
                try:
                    schema.validate(d)
                    rec["validator"] = "accepts"
                except (pa.errors.SchemaError, pa.errors.SchemaErrors) as e:
                    rec["validator"] = "rejects:" + str(getattr(e, "reason_code", "") or type(e).__name__)
                except Exception as e:  # noqa: BLE001
                    rec["validator"] = "raises:" + type(e).__name__
                if kind == "regex":
                    rec["n_columns"] = int(d.shape[1])
                    # every generated column is a draw of the same chain: the other columns are judged too
                    if consts is not None:
                        rec["other_columns"] = []
                        for cname in list(d.columns)[1:]:
                            ovals = list(d[cname])
                            rec["other_columns"].append({"ranks": [rank(v, consts) for v in ovals],
                                                         "has_duplicates": bool(pd.Series(ovals).duplicated().any()),
                                                         "values": [str(v) for v in ovals][:6]})
                    # the null mask may have hit the other generated column: container-level facts over all of them
                    rec["has_null"] = bool(d.isna().any().any())
                    if any(str(t) == "float64" for t in d.dtypes):
                        rec["physical_dtype"] = "float64"
            except Exception as e:  # noqa: BLE001
                rec = {"projection_error": "%s: %s" % (type(e).__name__, str(e)[:100])}
            ev["draws"].append(rec)
        ev["nullable"] = bool(nullable_here)
        ev["unique"] = bool(cont["unique"])
        ev["size"] = int(cont["size"])
        out["events"].append(ev)
    return out


def main(argv: List[str]) -> int:
    out_path, schemas_path, tier, seed = argv[0], argv[1], argv[2], int(argv[3])
    vecs = json.loads(open(schemas_path).read())
    import pandera  # noqa: F401  (imported before the fork: every job runs in a fresh process)
    import pandera.strategies.pandas_strategies  # noqa: F401

    jobs = []
    for i, v in enumerate(vecs):
        if v["kind"] == "strategy_str":
            kinds = [["series", "frame"][i % 2]]
        elif tier == "quick":
            kinds = [KINDS[i % 8]]
        elif len(v.get("chain", [])) >= 3:
            kinds = [KINDS[i % 8]]
        else:
            kinds = [KINDS[i % 8], KINDS[(i + 3) % 8]]
        jobs += [(i, v, tier, seed, k) for k in kinds]
    ctx = mp.get_context("fork")
    nproc = int(os.environ.get("VERIF_NPROC", "16"))
    res: List[Any] = [{"idx": i, "events": []} for i in range(len(vecs))]
    # a timed-out draw is interrupted inside hypothesis and leaves its state dirty: one process per job
    with ctx.Pool(nproc, maxtasksperchild=1) as p:
        for r in p.imap_unordered(_one, jobs, chunksize=1):
            res[r["idx"]]["events"].extend(r["events"])
    with open(out_path, "w") as fh:
        json.dump(res, fh)
    return 0


if __name__ == "__main__":
    sys.exit(main(sys.argv[1:]))
