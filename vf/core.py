"""Check driver: TLC -> vectors -> replay into /repo -> compare -> evidence."""
from __future__ import annotations

import hashlib
import json
import os
import random
import sys
import time
from dataclasses import dataclass, field
from pathlib import Path
from typing import Any, Callable, Dict, List, Optional, Tuple

from . import pool, tlc

ROOT = Path(__file__).resolve().parent.parent
# seeded-change sweeps (vf/seedsweep.py) run the checks against scratch worktrees and must not touch the evidence
EVID = Path(os.environ.get("VF_EVIDENCE_DIR") or (ROOT / "evidence"))
REPLAYS = Path(os.environ.get("VF_REPLAY_DIR") or (ROOT / "replays"))
KF_FILE = ROOT / "known_findings.json"


@dataclass
class Slice:
    name: str
    module: str
    cfg: Dict[str, str]                    # tier -> cfg path (relative to spec/) or literal text
    observe: Tuple[str, str]               # (python module, function)
    cap: Dict[str, int] = field(default_factory=dict)   # tier -> max vectors replayed (0 = all)
    workers: int = 16
    simulate: Dict[str, str] = field(default_factory=dict)  # tier -> "-simulate" argument
    depth: Optional[int] = None
    select: Optional[Callable[[Dict[str, Any]], bool]] = None
    env: Dict[str, str] = field(default_factory=dict)
    env_of: Optional[Callable[[Dict[str, Any]], Dict[str, str]]] = None   # per-vector process environment
    prepare: Optional[Callable[[str, int], Dict[str, str]]] = None        # (tier, seed) -> extra environment for TLC
    tiers: Tuple[str, ...] = ("quick", "thorough")                         # tiers in which the slice is explored


@dataclass
class Outcome:
    mismatches: List[str] = field(default_factory=list)   # violations of the property
    known: List[str] = field(default_factory=list)         # ids of known findings this vector exhibits
    sig: Optional[str] = None                              # signature if the case is non-trivial
    anomalies: List[str] = field(default_factory=list)     # counted, not violations


@dataclass
class Prop:
    id: str
    title: str
    slices: List[Slice]
    compare: Callable[[Dict[str, Any], Dict[str, Any]], Outcome]
    rule: str
    assumptions: List[str]
    invariants: List[str] = field(default_factory=list)
    extra: Optional[Callable[["Run"], None]] = None      # additional machinery (trace validation...)
    replay: Optional[Callable[[Dict[str, Any]], int]] = None   # replays one recorded witness (properties without slices)
    technique: Optional[str] = None                             # MANIFEST technique field (default: spec -> code replay)


@dataclass
class Run:
    prop: Prop
    tier: str
    seed: int
    t0: float = field(default_factory=time.time)
    states: int = 0
    transitions: int = 0
    vectors: int = 0
    replayed: int = 0
    traces: int = 0
    sigs: set = field(default_factory=set)
    samples: List[Any] = field(default_factory=list)
    violations: List[Tuple[str, str]] = field(default_factory=list)   # (message, replay path)
    known_hits: Dict[str, int] = field(default_factory=dict)
    anomalies: Dict[str, int] = field(default_factory=dict)
    slices: List[Dict[str, Any]] = field(default_factory=list)
    exhaustive: bool = True
    notes: List[str] = field(default_factory=list)
    extra_cov: Dict[str, Any] = field(default_factory=dict)


def load_known() -> Dict[str, Any]:
    if KF_FILE.exists():
        return json.loads(KF_FILE.read_text())
    return {"findings": [], "fixed": []}


def known_ids(prop_id: str) -> Dict[str, Dict[str, Any]]:
    return {f["id"]: f for f in load_known().get("findings", []) if prop_id in f["property"].split(",")}


def stratified(vectors: List[Dict[str, Any]], cap: int, seed: int, key: Callable[[Dict[str, Any]], str]) -> List[Dict[str, Any]]:
    """Seeded sample that keeps every stratum (predicted outcome signature) represented."""
    if cap <= 0 or len(vectors) <= cap:
        return vectors
    rng = random.Random(seed)
    strata: Dict[str, List[int]] = {}
    for i, v in enumerate(vectors):
        strata.setdefault(key(v), []).append(i)
    chosen: List[int] = []
    keys = sorted(strata)
    per = max(1, cap // max(1, len(keys)))
    rest: List[int] = []
    for k in keys:
        ids = strata[k]
        rng.shuffle(ids)
        chosen.extend(ids[:per])
        rest.extend(ids[per:])
    rng.shuffle(rest)
    chosen.extend(rest[: max(0, cap - len(chosen))])
    chosen = sorted(chosen[:max(cap, len(keys))])
    return [vectors[i] for i in chosen]


def default_key(v: Dict[str, Any]) -> str:
    e = v.get("expect", {})
    if v.get("kind") == "tablecheck":
        return "%s|%s|%s|%s|%s|%s" % (v["pred"], v["ina"], v["nfc"], v["warn"], e.get("passed"), v.get("ix"))
    if v.get("kind") == "multiindex":
        sc = v["schema"]
        return "%s|%s|%s|%s|%s" % (json.dumps(sc, sort_keys=True), [l["name"] for l in v["levels"]], [l["pd"] for l in v["levels"]],
                                   json.dumps(v["opts"], sort_keys=True), e.get("kind"))
    if v.get("kind") == "component":
        return "%s|%s|%s|%s" % (v["comp"], json.dumps(v["schema"], sort_keys=True), json.dumps(v["opts"], sort_keys=True), e.get("kind"))
    if v.get("kind") == "rows":
        return "%s|%s|%s|%s|%s|%s" % (v["backend"], v["mode"], json.dumps(v["schema"], sort_keys=True), e.get("kind"),
                                      sorted(v.get("devs") or []), v.get("ix"))
    if v.get("kind") == "model":
        return "%s|%s" % (v.get("backend"), " ".join("%s%s" % (o[0][0], o[1]) for o in v["hist"]))
    if not isinstance(e, dict):
        if "hist" in v:
            return "%s|%s|%s|%s" % (v.get("kind"), json.dumps(v.get("env"), sort_keys=True),
                                    ",".join("%s%s" % (o.get("op", ""), "!" if o.get("fault") else "") for o in v["hist"]),
                                    sorted(v.get("devs") or []))
        return str(v.get("kind"))
    reasons = ",".join(sorted({x["reason"] for x in e.get("errors", [])})) if isinstance(e.get("errors"), list) else ""
    sch = v.get("schema", {})
    kinds = ",".join(c.get("k", "") for c in sch.get("checks", [])) if isinstance(sch.get("checks"), list) else ""
    extra = ""
    if "opts" in v:
        extra = "|%s|%s|%s" % (json.dumps(v["opts"], sort_keys=True), sorted(v.get("devs") or []),
                               (sch.get("dtype"), sch.get("coerce"), v.get("data", {}).get("pd")))
    return "%s|%s|%s|%s%s" % (v.get("kind"), e.get("sat", e.get("kind")), reasons, kinds, extra)


class StreamSampler:
    """Consumes the vectors TLC prints, one at a time.  Everything is kept while the printed text stays under
    `text_limit` (then the selection is exactly `stratified`); beyond it the sampler keeps a bounded reservoir per
    stratum, so that a thorough exploration with millions of vectors does not have to fit in memory."""

    def __init__(self, cap: int, seed: int, select=None, text_limit: int = 250 << 20):
        self.cap, self.seed, self.select = cap, seed, select
        self.text_limit = text_limit
        self.header: Optional[Dict[str, Any]] = None
        self.total = 0
        self.text = 0
        self.all: Optional[List[Dict[str, Any]]] = []
        self.res: Dict[str, List[Dict[str, Any]]] = {}
        self.seen: Dict[str, int] = {}
        self.kept = 0
        self.R = max(24, cap)              # per-stratum reservoir; halved whenever the reservoirs outgrow text_limit
        self.rng = random.Random(seed)

    def __call__(self, v: Dict[str, Any], nbytes: int) -> None:
        if v.get("kind") == "header":
            self.header = v
            return
        if self.select and not self.select(v):
            return
        self.total += 1
        self.text += nbytes
        if self.all is not None:
            self.all.append(v)
            if self.cap > 0 and self.text > self.text_limit:
                vs, self.all = self.all, None
                for w in vs:
                    self._reservoir(w)
            return
        self._reservoir(v)

    def _reservoir(self, v: Dict[str, Any]) -> None:
        k = default_key(v)
        n = self.seen.get(k, 0) + 1
        self.seen[k] = n
        lst = self.res.setdefault(k, [])
        if len(lst) < self.R:
            lst.append(v)
            self.kept += 1
        else:
            j = self.rng.randrange(n)
            if j < self.R:
                lst[j] = v
        if self.kept * (self.text // max(1, self.total)) > self.text_limit and self.R > 1:
            self.R = max(1, self.R // 2)
            self.kept = 0
            for key in self.res:
                l2 = self.res[key]
                if len(l2) > self.R:
                    self.rng.shuffle(l2)
                    del l2[self.R:]
                self.kept += len(l2)

    def chosen(self) -> List[Dict[str, Any]]:
        if self.all is not None:
            return stratified(self.all, self.cap, self.seed, default_key)
        pool_: List[Dict[str, Any]] = []
        for k in sorted(self.res):
            pool_.extend(self.res[k])
        return stratified(pool_, self.cap, self.seed, default_key)


def write_replay(prop_id: str, payload: Dict[str, Any]) -> str:
    REPLAYS.mkdir(exist_ok=True)
    blob = json.dumps(payload, sort_keys=True)
    h = hashlib.sha1(blob.encode()).hexdigest()[:12]
    path = REPLAYS / ("%s-%s.json" % (prop_id, h))
    path.write_text(json.dumps(payload, indent=1, sort_keys=True))
    return str(path)


def model_check(run: Run, sl: Slice, workers: int):
    tier = run.tier
    cfg = sl.cfg.get(tier) or sl.cfg["quick"]
    sim = sl.simulate.get(tier)
    env = dict(sl.env)
    tmpfiles: List[str] = []
    if sl.prepare:
        extra = sl.prepare(tier, run.seed)
        tmpfiles = [v for k, v in extra.items() if k.endswith("_FILE") or k.startswith("VF_")]
        env.update(extra)
    sampler = StreamSampler(sl.cap.get(tier, 0), run.seed, sl.select)
    try:
        res = tlc.run_tlc(sl.module, cfg, workers=workers, simulate=sim, depth=sl.depth,
                          seed=run.seed if sim else None, env=env, sink=sampler)
        res.sampler = sampler
        return res
    finally:
        for f in tmpfiles:
            try:
                os.unlink(f)
            except OSError:
                pass


def run_slice(run: Run, sl: Slice, res) -> None:
    tier = run.tier
    sim = sl.simulate.get(tier)
    if res.invariant_violated:
        raise tlc.MachineryError(
            "the specification itself violates %s in %s (model inconsistent):\n%s"
            % (res.invariant_violated, sl.module, "\n".join(res.error_trace[:60])))
    run.states += res.distinct_states
    run.transitions += res.states_generated
    sampler = res.sampler
    header = sampler.header
    nvecs = sampler.total
    run.vectors += nvecs
    chosen = sampler.chosen()
    sampler.all, sampler.res = None, {}
    if len(chosen) < nvecs or sim:
        run.exhaustive = False
    t1 = time.time()
    if sl.env_of is None:
        obs = pool.replay(chosen, sl.observe[0], sl.observe[1], header=header, env=sl.env)
    else:
        # fresh worker processes per environment: pandera reads the environment at import time
        groups: Dict[str, List[int]] = {}
        for i, v in enumerate(chosen):
            groups.setdefault(json.dumps(sl.env_of(v), sort_keys=True), []).append(i)
        obs = [None] * len(chosen)
        for key, ids in sorted(groups.items()):
            env = dict(sl.env)
            env.update(json.loads(key))
            clear = {k: "" for k in ("PANDERA_VALIDATION_ENABLED", "PANDERA_VALIDATION_DEPTH",
                                     "PANDERA_CACHE_DATAFRAME", "PANDERA_KEEP_CACHED_DATAFRAME") if k not in env}
            part = pool.replay([chosen[i] for i in ids], sl.observe[0], sl.observe[1], header=header,
                               env=env, unset=list(clear), nproc=max(2, pool.NPROC // 2))
            for i, o in zip(ids, part):
                obs[i] = o
    known = known_ids(run.prop.id)
    for v, o in zip(chosen, obs):
        if o is None or "harness_error" in o:
            raise tlc.MachineryError("harness failed on a vector of %s: %s\n%s" % (sl.name, o, json.dumps(v)[:800]))
        oc = run.prop.compare(v, o)
        run.replayed += 1
        if oc.sig:
            run.sigs.add(oc.sig)
        for a in oc.anomalies:
            run.anomalies[a] = run.anomalies.get(a, 0) + 1
        for k in oc.known:
            if k in known:
                run.known_hits[k] = run.known_hits.get(k, 0) + 1
            else:
                oc.mismatches.append("deviation %s observed but not a listed finding" % k)
        if oc.mismatches and len(run.violations) < int(os.environ.get("VERIF_MAX_REPLAYS", "25")):
            path = write_replay(run.prop.id, {"property": run.prop.id, "slice": sl.name, "header": header,
                                              "vector": v, "observed": o, "mismatches": oc.mismatches})
            run.violations.append(("; ".join(oc.mismatches)[:400], path))
        elif oc.mismatches:
            run.violations.append(("; ".join(oc.mismatches)[:200], ""))
    if len(run.samples) < 3 and chosen:
        run.samples.append({"slice": sl.name, "vector": chosen[len(chosen) // 2]})
    run.slices.append({"slice": sl.name, "module": sl.module, "states": res.distinct_states,
                       "vectors": nvecs, "replayed": len(chosen), "tlc_s": round(res.wall_s, 1),
                       "replay_s": round(time.time() - t1, 1), "mode": "simulate" if sim else "exhaustive"})


def write_evidence(run: Run) -> None:
    EVID.mkdir(exist_ok=True)
    cov = {
        "states": max(1, run.states),
        "transitions": max(1, run.transitions),
        "traces_validated_against_impl": run.replayed + run.traces,
        "samples": run.samples or [{"note": "no vectors"}],
        "evaluations": run.replayed + run.traces,
        "distinct_nontrivial": len(run.sigs),
        "rule": run.prop.rule,
        "exhaustive": bool(run.exhaustive),
        "vectors_emitted_by_tlc": run.vectors,
        "slices": run.slices,
        "invariants_checked_by_tlc": run.prop.invariants,
        "known_findings_exhibited": run.known_hits,
        "anomalies": run.anomalies,
    }
    cov.update(run.extra_cov)
    ev = {
        "property_id": run.prop.id,
        "tier": run.tier,
        "seed": run.seed,
        "level": "model_checking",
        "coverage": cov,
        "assumptions": run.prop.assumptions,
        "wall_s": round(time.time() - run.t0, 2),
        "violations": len(run.violations),
    }
    (EVID / (run.prop.id + ".json")).write_text(json.dumps(ev, indent=1, sort_keys=True, default=str))


def execute(prop: Prop, tier: str, seed: int) -> int:
    run = Run(prop=prop, tier=tier, seed=seed)
    try:
        # phase 1: TLC on every slice (concurrently); phase 2: replay into the implementation
        from concurrent.futures import ThreadPoolExecutor

        slices_ = [sl for sl in prop.slices if tier in sl.tiers]
        # slices are explored and replayed in groups (4 at a time in the quick tier, 2 in the thorough tier, whose
        # exhaustive slices hold hundreds of thousands of vectors each): the vectors of a group are released before
        # the next group is model-checked, which bounds the memory of a run by its largest group
        g = 4 if tier == "quick" else 2
        for i in range(0, max(1, len(slices_)), g):
            group = slices_[i:i + g]
            if not group:
                break
            w = max(2, 16 // len(group))
            with ThreadPoolExecutor(max_workers=len(group)) as ex:
                results = list(ex.map(lambda sl: model_check(run, sl, w), group))
            for sl, res in zip(group, results):
                run_slice(run, sl, res)
                res.sampler = None
            del results
        if prop.extra:
            prop.extra(run)
    except tlc.MachineryError as exc:
        print("MACHINERY-ERROR property=%s %s" % (prop.id, exc), file=sys.stderr)
        return 2
    write_evidence(run)
    known = known_ids(prop.id)
    for k, f in sorted(known.items()):
        n = run.known_hits.get(k, 0)
        if n:
            print("KNOWN-FINDING: property=%s %s [%s; exhibited by %d explored cases]" % (prop.id, f["what"], k, n))
    for msg, path in run.violations[:25]:
        print("VIOLATION property=%s replay=%s" % (prop.id, path))
        print("  " + msg)
    print("%s %s tier=%s seed=%d states=%d vectors=%d replayed=%d traces=%d nontrivial=%d violations=%d wall=%.1fs"
          % ("FAIL" if run.violations else "PASS", prop.id, tier, seed, run.states, run.vectors, run.replayed,
             run.traces, len(run.sigs), len(run.violations), time.time() - run.t0))
    return 1 if run.violations else 0


def replay_file(prop: Prop, path: str) -> int:
    from . import conc

    payload = json.loads(Path(path).read_text())
    if prop.replay is not None and "vector" not in payload:
        try:
            rc = prop.replay(payload)
        except tlc.MachineryError as exc:
            print("MACHINERY-ERROR property=%s %s" % (prop.id, exc), file=sys.stderr)
            return 2
        if rc:
            print("VIOLATION property=%s replay=%s" % (prop.id, path))
        return rc
    sl = next((s for s in prop.slices if s.name == payload.get("slice")), prop.slices[0])
    obs = pool.replay([payload["vector"]], sl.observe[0], sl.observe[1], header=payload.get("header"), nproc=1, env=sl.env)
    oc = prop.compare(payload["vector"], obs[0])
    print(json.dumps({"observed": obs[0], "mismatches": oc.mismatches, "known": oc.known}, indent=1, default=str))
    if oc.mismatches:
        print("VIOLATION property=%s replay=%s" % (prop.id, path))
        return 1
    return 0
