"""Confirm a seeded change in a scratch worktree and file it under /verif/seeded/<id>/.

usage: python -m vf.seedcheck <PROP> <variant> <srcdir> [--tests "tests/core tests/polars tests/io"]
  srcdir contains patch.diff, demo.py, meta.json (written by an independent sub-agent)
Steps (all in a fresh worktree of /repo HEAD under /tmp, removed afterwards):
  1. demo.py exits 0 on the unchanged tree
  2. patch applies; demo.py exits non-zero with it
  3. the stable baseline tests of the given paths still pass with the patch (guard unset)
"""
from __future__ import annotations

import json
import os
import shutil
import subprocess
import sys
import tempfile


def sh(cmd, cwd=None, env=None, timeout=3600):
    p = subprocess.run(cmd, cwd=cwd, env=env, shell=isinstance(cmd, str), stdout=subprocess.PIPE,
                       stderr=subprocess.STDOUT, text=True, timeout=timeout)
    return p.returncode, p.stdout


def main(argv):
    prop, variant, src = argv[0], argv[1], argv[2]
    tests = "tests/core tests/polars tests/io"
    if "--tests" in argv:
        tests = argv[argv.index("--tests") + 1]
    sid = "%s-%s" % (prop, variant)
    wt = tempfile.mkdtemp(prefix="seedwt-%s-" % sid)
    os.rmdir(wt)
    rc, out = sh(["git", "-C", "/repo", "worktree", "add", "--detach", wt, "HEAD"])
    if rc:
        print(out)
        return 2
    env = dict(os.environ)
    env.pop("PANDERA_VERIF", None)
    env["PYTHONPATH"] = wt
    res = {"id": sid, "property": prop}
    try:
        demo = os.path.join(src, "demo.py")
        rc0, o0 = sh(["/venv/bin/python", demo], cwd=wt, env=env, timeout=900)
        res["demo_on_original_exit"] = rc0
        rc, out = sh(["git", "apply", os.path.join(src, "patch.diff")], cwd=wt)
        res["patch_applies"] = rc == 0
        if rc:
            print(out)
        rc1, o1 = sh(["/venv/bin/python", demo], cwd=wt, env=env, timeout=900)
        res["demo_with_patch_exit"] = rc1
        res["demo_with_patch_tail"] = o1[-400:]
        e2 = dict(env)
        e2["VF_REPO"] = wt
        rc2, o2 = sh(["/venv/bin/python", "-m", "vf.baseline"] + tests.split(), cwd="/verif", env=e2, timeout=7200)
        res["baseline_with_patch"] = o2.strip().splitlines()[-1] if o2.strip() else ""
        res["baseline_lost"] = [l for l in o2.splitlines() if l.startswith("LOST")][:10]
        res["tests_run"] = "python -m vf.baseline %s (stable_pass subset of BASELINE.json, guard unset) in a scratch worktree with the patch" % tests
    finally:
        sh(["git", "-C", "/repo", "worktree", "remove", "--force", wt])
        shutil.rmtree(wt, ignore_errors=True)
    ok = res.get("demo_on_original_exit") == 0 and res.get("patch_applies") and res.get("demo_with_patch_exit") not in (0, None) and not res.get("baseline_lost") and "0 lost" in res.get("baseline_with_patch", "")
    res["confirmed"] = bool(ok)
    dst = "/verif/seeded/%s" % sid
    if ok:
        os.makedirs(dst, exist_ok=True)
        shutil.copy(os.path.join(src, "patch.diff"), dst)
        shutil.copy(demo, dst)
        meta = {}
        try:
            meta = json.load(open(os.path.join(src, "meta.json")))
        except Exception:  # noqa: BLE001
            pass
        meta.update({"breaks_property": prop, "confirmation": res})
        json.dump(meta, open(os.path.join(dst, "meta.json"), "w"), indent=1)
    print(json.dumps(res, indent=1))
    return 0 if ok else 1


if __name__ == "__main__":
    sys.exit(main(sys.argv[1:]))
