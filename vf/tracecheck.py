"""Trace validation (code -> spec): run TLC on a Trace_*.tla spec over a file of recorded traces."""
from __future__ import annotations

import json
import os
import re
import subprocess
import sys
import tempfile
from pathlib import Path
from typing import Any, Dict, List, Optional, Tuple

from . import tlc


def record(module: str, args: List[str], timeout: int = 1800) -> Tuple[List[Any], str]:
    """run `python -m <module> <out.json> args...` in a fresh interpreter; returns the traces"""
    tmp = tempfile.mkdtemp(prefix="vf-trace-")
    out = os.path.join(tmp, "traces.json")
    env = dict(os.environ)
    env["PANDERA_VERIF"] = "1"
    env["PYTHONHASHSEED"] = "0"
    p = subprocess.run([sys.executable, "-m", module, out] + args, cwd=str(tlc.ROOT), env=env,
                       stdout=subprocess.PIPE, stderr=subprocess.STDOUT, text=True, timeout=timeout)
    if p.returncode != 0 or not os.path.exists(out):
        raise tlc.MachineryError("recorder %s failed:\n%s" % (module, p.stdout[-3000:]))
    traces = json.loads(Path(out).read_text())
    return traces, out


def validate(module: str, cfg: str, trace_file: str, workers: int = 8, timeout: int = 1800) -> Dict[str, Any]:
    """returns {ok, states, rejected: {tid, l, what} | None}"""
    try:
        res = tlc.run_tlc(module, cfg, workers=workers, env={"TRACE_FILE": trace_file}, timeout=timeout)
    except tlc.MachineryError:
        raise
    out: Dict[str, Any] = {"ok": res.ok, "states": res.distinct_states, "transitions": res.states_generated,
                           "rejected": None, "vectors": res.vectors}
    if res.invariant_violated:
        txt = "\n".join(res.error_trace)
        # last state of the counterexample carries tid and l
        tids = re.findall(r"/\\ tid = (\d+)", txt)
        ls = re.findall(r"/\\ l = (\d+)", txt)
        out["rejected"] = {"property": res.invariant_violated,
                           "tid": int(tids[-1]) if tids else None,
                           "l": int(ls[-1]) if ls else None}
    return out


def cleanup(trace_file: str) -> None:
    import shutil

    shutil.rmtree(os.path.dirname(trace_file), ignore_errors=True)
