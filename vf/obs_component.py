"""Replay Component.tla: stand-alone Column / Index validation of a DataFrame (C03, C04, C06)."""
from __future__ import annotations

import warnings
from typing import Any, Dict, List

from . import conc, proj


def _cells(pd_kind: str, cells: List[List[Any]]):
    import numpy as np

    vals = [None if c[0] == "na" else (c[1] / 2.0 if c[0] == "f" else int(c[1])) for c in cells]
    if pd_kind == "int64":
        return np.array(vals, dtype="int64")
    return np.array([np.nan if v is None else v for v in vals], dtype="float64")


def _abs(s):
    return s.abs()


def _clip0(s):
    return s.clip(lower=0)


PARSERS = {"abs": _abs, "clip0": _clip0}


def build(vec: Dict[str, Any]):
    import pandas as pd
    import pandera as pa

    S = vec["schema"]
    data = {}
    for j, f in enumerate(vec["cols"]):
        data["x%d" % (j + 1)] = _cells(f["pd"], f["cells"])
    n = len(vec["cols"][0]["cells"])
    data["y"] = list(range(n))
    df = pd.DataFrame(data, index=pd.Index(_cells(vec["idx"]["pd"], vec["idx"]["cells"])))
    checks = [conc.check(c, pa) for c in S["checks"]]
    dt = {"float64": float, "int64": int}[S["dtype"]]
    if vec["comp"] == "column":
        kw: Dict[str, Any] = {}
        if S["default"][0] != "na":
            kw["default"] = S["default"][1] / 2.0
        comp = pa.Column(dt, checks=checks, coerce=bool(S["coerce"]), nullable=bool(S["nullable"]),
                         parsers=[pa.Parser(PARSERS[p]) for p in S["parsers"]], regex=bool(S["regex"]),
                         name=r"x\d" if S["regex"] else "x1", **kw)
    else:
        comp = pa.Index(dt, checks=checks, coerce=bool(S["coerce"]))
    return comp, df


def p_frame(df, ncols: int) -> Dict[str, Any]:
    cols = []
    for j in range(ncols):
        s = df["x%d" % (j + 1)]
        cols.append({"pd": str(s.dtype), "cells": [proj.aval(v) for v in s.tolist()]})
    return {"cols": cols, "idx": {"pd": str(df.index.dtype), "cells": [proj.aval(v) for v in df.index.tolist()]},
            "y": df["y"].tolist(), "columns": list(df.columns)}


def observe_component(vec: Dict[str, Any]) -> Dict[str, Any]:
    import pandas as pd
    import pandera as pa

    out: Dict[str, Any] = {}
    with warnings.catch_warnings():
        warnings.simplefilter("ignore")
        comp, df = build(vec)
        snap = proj.snapshot(df)
        before = p_frame(df, len(vec["cols"]))
        try:
            res = comp.validate(df, lazy=bool(vec["opts"]["lazy"]), inplace=bool(vec["opts"]["inplace"]))
            out["kind"] = "ok"
            out["type_ok"] = type(res) is pd.DataFrame
            out["returned"] = p_frame(res, len(vec["cols"]))
            out["same_object"] = res is df
        except pa.errors.SchemaErrors:
            out["kind"] = "SchemaErrors"
        except pa.errors.SchemaError:
            out["kind"] = "SchemaError"
        except Exception as e:  # noqa: BLE001
            out["kind"] = "Leak:" + type(e).__name__
            out["msg"] = str(e)[:160]
        out["input_unchanged"] = proj.snapshot(df) == snap
        out["caller_after"] = p_frame(df, len(vec["cols"]))
        out["caller_before"] = before
    return out
