"""Replay FrameRows.tla behaviours on pandas and polars DataFrameSchemas (C11 drop_invalid_rows, C20 head/tail)."""
from __future__ import annotations

import warnings
from typing import Any, Dict, List

NULL = -9


def _pandas(vec: Dict[str, Any]):
    import pandas as pd
    import pandera as pa

    S = vec["schema"]
    n = len(vec["a"])
    # index labelling (FrameRows.tla LabelOf): decreasing labels, so that a position is never a label
    ixk = vec.get("ix", "unique")
    labels = [100 - ((i + 2) // 2 if ixk in ("dup", "multidup") else i + 11) for i in range(n)]
    if ixk == "multits":
        index = pd.MultiIndex.from_arrays([[pd.Timestamp("2020-01-01") + pd.Timedelta(days=x) for x in labels], [0] * n], names=["p", "q"])
    else:
        index = pd.MultiIndex.from_arrays([labels, [0] * n], names=["p", "q"]) if ixk.startswith("multi") else pd.Index(labels)
    df = pd.DataFrame({"a": [None if x == NULL else float(x) for x in vec["a"]], "b": [int(x) for x in vec["b"]],
                       "rid": list(range(n))}, index=index)
    df["a"] = df["a"].astype("float64")
    # column labelling: strings, integers, or tuples (MultiIndex columns)
    L = {"intcols": {"a": 0, "b": 1, "rid": 2}, "tuplecols": {"a": ("x", "a"), "b": ("x", "b"), "rid": ("y", "rid")}}.get(ixk, {"a": "a", "b": "b", "rid": "rid"})
    if ixk == "tuplecols":
        df.columns = pd.MultiIndex.from_tuples([L[c] for c in df.columns])
    elif ixk == "intcols":
        df.columns = [L[c] for c in df.columns]
    checks = []
    if S["gt0"]:
        checks.append(pa.Check.gt(0))
    if S["le1"]:
        checks.append(pa.Check.le(1))
    kw: Dict[str, Any] = {}
    if S["unique"] != "no":
        kw = {"unique": True, "report_duplicates": S["unique"]}
    cols = {L["a"]: pa.Column(float, checks=checks, nullable=S["nullable"], **kw), L["b"]: pa.Column(int), L["rid"]: pa.Column(int)}
    skw: Dict[str, Any] = {}
    if S["joint"] != "no":
        skw = {"unique": [L["a"], L["b"]], "report_duplicates": S["joint"]}
    fchecks = [pa.Check(lambda d: (d[L["a"]] <= d[L["b"]] + 1) | d[L["a"]].isna(), name="rowcheck")] if S["rowcheck"] else []
    schema = pa.DataFrameSchema(cols, checks=fchecks, drop_invalid_rows=vec["mode"] == "drop", **skw)
    return schema, df


def _polars(vec: Dict[str, Any]):
    import polars as pl
    import pandera.polars as pa

    S = vec["schema"]
    n = len(vec["a"])
    df = pl.DataFrame({"a": pl.Series([None if x == NULL else float(x) for x in vec["a"]], dtype=pl.Float64),
                       "b": pl.Series([int(x) for x in vec["b"]], dtype=pl.Int64), "rid": pl.Series(list(range(n)), dtype=pl.Int64)})
    checks = []
    if S["gt0"]:
        checks.append(pa.Check.gt(0))
    if S["le1"]:
        checks.append(pa.Check.le(1))
    cols = {"a": pa.Column(pl.Float64, checks=checks, nullable=S["nullable"], unique=S["unique"] != "no"),
            "b": pa.Column(pl.Int64), "rid": pa.Column(pl.Int64)}
    skw: Dict[str, Any] = {}
    if S["joint"] != "no":
        skw = {"unique": ["a", "b"]}
    fchecks = [pa.Check(lambda d: d.lazyframe.select((pl.col("a") <= pl.col("b") + 1) | pl.col("a").is_null()), name="rowcheck")] \
        if S["rowcheck"] else []
    schema = pa.DataFrameSchema(cols, checks=fchecks, drop_invalid_rows=vec["mode"] == "drop", **skw)
    return schema, df


STAGE_OF = {"not_nullable": "nullable", "field_uniqueness": "unique", "greater_than(0)": "gt0", "less_than_or_equal_to(1)": "le1",
            "multiple_fields_uniqueness": "joint", "rowcheck": "rowcheck"}


def _report(e, df) -> Dict[str, Any]:
    """the rows (1-based positions) the lazy report names, per constraint; labels are mapped back to positions, a
    repeated label standing for every row that carries it"""
    labels = list(df.index)
    out: Dict[str, Any] = {}
    fc = e.failure_cases
    for chk, lab in zip(fc["check"].tolist(), fc["index"].tolist()):
        stage = STAGE_OF.get(str(chk), "other:%s" % chk)
        if isinstance(lab, str) and lab.startswith("("):
            try:
                lab = eval(lab, {"Timestamp": __import__("pandas").Timestamp, "nan": float("nan")})  # noqa: S307 - mirrors pandera
            except Exception:  # noqa: BLE001
                pass
        pos = sorted(i + 1 for i, l in enumerate(labels) if l == lab or (isinstance(l, tuple) and isinstance(lab, tuple) and
                                                                      tuple(map(str, l)) == tuple(map(str, lab))))
        out.setdefault(stage, set()).update(pos if pos else {"unknown-label:%r" % (lab,)})
    return {k: sorted(v, key=str) for k, v in out.items()}


def observe_rows(vec: Dict[str, Any]) -> Dict[str, Any]:
    import pandera as pa0

    out: Dict[str, Any] = {}
    with warnings.catch_warnings():
        warnings.simplefilter("ignore")
        schema, df = (_pandas if vec["backend"] == "pandas" else _polars)(vec)
        # drop_invalid_rows requires lazy=True; the subsample verdict is taken from the eager run and the lazy run is
        # observed as well (C06: documented error channel)
        kw: Dict[str, Any] = {"lazy": vec["mode"] == "drop"}
        if vec["head"] == -2:                       # FrameRows.tla SampleAll: a sample of all rows
            kw["sample"] = len(vec["a"])
            kw["random_state"] = 1
        elif vec["head"] >= 0:
            kw["head"] = vec["head"]
        if vec["tail"] >= 0:
            kw["tail"] = vec["tail"]
        if vec["mode"] == "subsample":
            try:
                schema.validate(df.clone() if vec["backend"] == "polars" else df.copy(), **dict(kw, lazy=True))
                out["lazy_kind"] = "ok"
            except pa0.errors.SchemaErrors as e:
                out["lazy_kind"] = "raises"
                if vec["backend"] == "pandas":
                    out["report"] = _report(e, df)
            except pa0.errors.SchemaError:
                out["lazy_kind"] = "raises"
            except Exception as e:  # noqa: BLE001
                out["lazy_kind"] = "Leak:" + type(e).__name__
        if vec["mode"] == "subsample" and len(vec["a"]) == 1:
            try:
                schema.validate([1, 2])
                out["nonframe"] = "returned"
            except Exception as e:  # noqa: BLE001
                out["nonframe"] = type(e).__name__
        try:
            res = schema.validate(df, **kw)
            out["kind"] = "ok"
            out["kept"] = [int(x) + 1 for x in (res["rid"].to_list() if vec["backend"] == "polars" else list(res.iloc[:, 2]))]
            out["type_ok"] = type(res) is type(df)
        except (pa0.errors.SchemaErrors, pa0.errors.SchemaError) as e:
            out["kind"] = "raises"
            out["reasons"] = sorted({x.reason_code.name for x in getattr(e, "schema_errors", [e])})
        except Exception as e:  # noqa: BLE001
            out["kind"] = "Leak:" + type(e).__name__
            out["msg"] = str(e)[:160]
        if vec["backend"] == "polars" and vec["mode"] == "subsample":
            # container kind preserved (C04): LazyFrame in -> LazyFrame out; stand-alone Column on a DataFrame
            import polars as pl
            import pandera.polars as pap

            try:
                r = schema.validate(df.lazy(), **dict(kw, lazy=False))
                out["lazyframe_type_ok"] = isinstance(r, pl.LazyFrame)
            except (pa0.errors.SchemaErrors, pa0.errors.SchemaError):
                out["lazyframe_type_ok"] = True
            except Exception as e:  # noqa: BLE001
                out["lazyframe_type_ok"] = "Leak:" + type(e).__name__
            try:
                r = pap.Column(pl.Int64, name="b").validate(df)
                out["column_type_ok"] = type(r) is type(df)
            except Exception as e:  # noqa: BLE001
                out["column_type_ok"] = "raises:" + type(e).__name__
    return out
