"""Observe the check back end on one (check, data) vector (C19)."""
from __future__ import annotations

import warnings
from typing import Any, Dict

from . import conc, predicates, proj

CANONICAL = {"eq": "equal_to", "ne": "not_equal_to", "gt": "greater_than", "ge": "greater_than_or_equal_to",
             "lt": "less_than", "le": "less_than_or_equal_to", "in_range": "in_range", "isin": "isin", "notin": "notin"}
ALIAS = {"eq": "eq", "ne": "ne", "gt": "gt", "ge": "ge", "lt": "lt", "le": "le", "in_range": "between",
         "isin": "isin", "notin": "notin"}


def build(c: Dict[str, Any], alias: bool):
    import pandera as pa

    if c["k"] == "custom":
        return predicates.make_check(c, pa)
    kw = {"ignore_na": bool(c["ina"])}
    if c.get("nfc"):
        kw["n_failure_cases"] = int(c["nfc"])
    if c.get("warn"):
        kw["raise_warning"] = True
    name = (ALIAS if alias else CANONICAL)[c["k"]]
    ctor = getattr(pa.Check, name)
    a = c["a"]
    if c["k"] == "in_range":
        return ctor(conc.val(a[0]), conc.val(a[1]), include_min=conc.val(a[2]), include_max=conc.val(a[3]), **kw)
    if c["k"] in ("isin", "notin"):
        return ctor([conc.val(x) for x in a], **kw)
    return ctor(conc.val(a[0]), **kw)


_WARM: list = []


def observe_check(vec: Dict[str, Any]) -> Dict[str, Any]:
    import pandas as pd
    import pandera as pa

    ser = conc.pd_series(vec["data"])
    if not _WARM:
        # back ends are registered lazily by the first schema validation in a process
        pa.SeriesSchema(nullable=True).validate(pd.Series([1.0]))
        _WARM.append(True)
    check = build(vec["check"], bool(vec.get("alias")))
    out: Dict[str, Any] = {}
    del predicates.SHOWN[:]
    try:
        r = check(ser)
        out["passed"] = bool(r.check_passed)
        fc = r.failure_cases
        if fc is None:
            out["cases"] = []
        else:
            out["cases"] = [[proj.aval(i), proj.aval(v)] for i, v in zip(fc.index.tolist(), fc.tolist())]
    except Exception as e:  # noqa: BLE001
        out["direct_error"] = "%s: %s" % (type(e).__name__, e)
    out["args"] = [proj.aval(x) for x in predicates.SHOWN]
    # through a schema: verdict and warnings
    del predicates.SHOWN[:]
    schema = pa.SeriesSchema(checks=[build(vec["check"], bool(vec.get("alias")))], nullable=True)
    with warnings.catch_warnings(record=True) as w:
        warnings.simplefilter("always")
        try:
            schema.validate(ser, lazy=True)
            out["validates"] = True
        except pa.errors.SchemaErrors as e:
            out["validates"] = False
            out["reasons"] = sorted({x.reason_code.name for x in e.schema_errors})
            rep = [x for x in e.schema_errors if x.reason_code.name == "DATAFRAME_CHECK"]
            if rep and isinstance(rep[0].failure_cases, pd.DataFrame):
                out["schema_cases"] = [[proj.aval(i), proj.aval(v)] for i, v in
                                       zip(rep[0].failure_cases["index"].tolist(), rep[0].failure_cases["failure_case"].tolist())]
        except Exception as e:  # noqa: BLE001
            out["validates"] = "Leak:" + type(e).__name__
    out["warns"] = any(issubclass(x.category, pa.errors.SchemaWarning) for x in w)
    out["args_schema"] = [proj.aval(x) for x in predicates.SHOWN]
    return out


GROUPS_SEEN: list = []


def observe_check_groupby(vec: Dict[str, Any]) -> Dict[str, Any]:
    import pandas as pd
    import pandera as pa

    d = vec["data"]
    v = [conc.val(x) for x in d["v"]]
    g = [conc.val(x, None) for x in d["g"]]
    gcol = pd.Series(g, dtype=object)
    if d["gkind"] == "category":
        gcol = pd.Series(pd.Categorical(g, categories=["a", "b", "ab"]))
    df = pd.DataFrame({"v": pd.Series(v, dtype="int64"), "g": gcol})
    del GROUPS_SEEN[:]

    def fn(groups):
        GROUPS_SEEN.append({k: s.tolist() for k, s in groups.items()})
        return all(bool((s > 0).all()) for s in groups.values())

    kw = {}
    if vec["groups"]:
        kw["groups"] = [conc.val(x) for x in vec["groups"]]
    out: Dict[str, Any] = {}
    variants = {"name": "g", "list": ["g"], "callable": (lambda frame: frame.groupby("g"))}
    for how, by in variants.items():
        del GROUPS_SEEN[:]
        schema = pa.DataFrameSchema({"v": pa.Column("int64", pa.Check(fn, groupby=by, **kw)), "g": pa.Column(nullable=True)})
        rec: Dict[str, Any] = {}
        with warnings.catch_warnings():
            warnings.simplefilter("ignore")
            try:
                schema.validate(df, lazy=True)
                rec["validates"] = True
            except pa.errors.SchemaErrors as e:
                rec["validates"] = False
                rec["reasons"] = sorted({x.reason_code.name for x in e.schema_errors})
            except Exception as e:  # noqa: BLE001
                rec["validates"] = "Leak:" + type(e).__name__
        rec["groups"] = [[[proj.aval(k), [proj.aval(x) for x in vals]] for k, vals in sorted(seen.items())] for seen in GROUPS_SEEN]
        out[how] = rec
    return out
