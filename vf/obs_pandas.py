"""Observation functions: run the real pandas back end on a concretized vector."""
from __future__ import annotations

import warnings
from typing import Any, Dict

from . import conc, proj

DOCUMENTED = ("SchemaError", "SchemaErrors", "SchemaDefinitionError", "SchemaInitError")


def run_validate(schema, obj, project, **kw) -> Dict[str, Any]:
    """Call schema.validate(obj, **kw) and project everything observable."""
    import pandera as pa
    from pandera.errors import SchemaError, SchemaErrors, SchemaDefinitionError, SchemaInitError

    rec: Dict[str, Any] = {}
    with warnings.catch_warnings(record=True) as w:
        warnings.simplefilter("always")
        try:
            out = schema.validate(obj, **kw)
            rec["kind"] = "ok"
            rec["same_object"] = out is obj
            rec["type"] = type(out).__name__
            try:
                rec["returned"] = project(out)
            except Exception as exc:  # noqa: BLE001
                rec["returned"] = {"unprojectable": repr(exc)}
        except SchemaErrors as e:
            rec["kind"] = "SchemaErrors"
            try:
                rec["errors"] = [proj.schema_error(x) for x in e.schema_errors]
                rec["report"] = proj.lazy_report(e)
            except Exception as exc:  # noqa: BLE001
                rec["report_error"] = "%s: %s" % (type(exc).__name__, exc)
        except SchemaError as e:
            rec["kind"] = "SchemaError"
            rec["errors"] = [proj.schema_error(e)]
        except (SchemaDefinitionError, SchemaInitError) as e:
            rec["kind"] = type(e).__name__
        except Exception as e:  # noqa: BLE001 - an undocumented exception escaping validate
            rec["kind"] = "Leak:" + type(e).__name__
            rec["msg"] = str(e)[:300]
    rec["warnings"] = sum(1 for x in w if issubclass(x.category, pa.errors.SchemaWarning))
    return rec


def observe_series(vec: Dict[str, Any]) -> Dict[str, Any]:
    schema = conc.series_schema(vec["schema"])
    ser = conc.pd_series(vec["data"])
    snap0 = proj.snapshot(ser)
    obs: Dict[str, Any] = {}
    opts = vec.get("opts", {})
    for mode in ("eager", "lazy"):
        kw = dict(lazy=(mode == "lazy"))
        for k in ("head", "tail", "sample", "random_state", "inplace"):
            if opts.get(k) is not None:
                kw[k] = opts[k]
        obs[mode] = run_validate(schema, ser, proj.field, **kw)
        obs[mode]["input_unchanged"] = proj.snapshot(ser) == snap0
    return obs


def observe_frame(vec: Dict[str, Any]) -> Dict[str, Any]:
    schema = conc.frame_schema(vec["schema"])
    df = conc.pd_frame(vec["data"])
    snap0 = proj.snapshot(df)
    obs: Dict[str, Any] = {}
    opts = vec.get("opts", {})
    modes = ("lazy",) if vec["schema"].get("drop") else ("eager", "lazy")
    for mode in modes:
        kw = dict(lazy=(mode == "lazy"))
        for k in ("head", "tail", "sample", "random_state", "inplace"):
            if opts.get(k) is not None:
                kw[k] = opts[k]
        obs[mode] = run_validate(schema, df, proj.frame, **kw)
        obs[mode]["input_unchanged"] = proj.snapshot(df) == snap0
    return obs
