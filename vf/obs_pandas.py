"""Observation functions: run the real pandas back end on a concretized vector."""
from __future__ import annotations

import warnings
from typing import Any, Dict

from . import conc, proj

DOCUMENTED = ("SchemaError", "SchemaErrors", "SchemaDefinitionError", "SchemaInitError")


def run_validate(schema, obj, project, **kw) -> Dict[str, Any]:
    """Call schema.validate(obj, **kw) and project everything observable."""
    import pandera as pa
    from pandera.errors import SchemaError, SchemaErrors, SchemaDefinitionError, SchemaInitError

    rec: Dict[str, Any] = {}
    with warnings.catch_warnings(record=True) as w:
        warnings.simplefilter("always")
        try:
            out = schema.validate(obj, **kw)
            rec["kind"] = "ok"
            rec["same_object"] = out is obj
            rec["type"] = type(out).__name__
            try:
                rec["returned"] = project(out)
            except Exception as exc:  # noqa: BLE001
                rec["returned"] = {"unprojectable": repr(exc)}
        except SchemaErrors as e:
            rec["kind"] = "SchemaErrors"
            try:
                rec["errors"] = [proj.schema_error(x) for x in e.schema_errors]
                rec["report"] = proj.lazy_report(e)
            except Exception as exc:  # noqa: BLE001
                rec["report_error"] = "%s: %s" % (type(exc).__name__, exc)
        except SchemaError as e:
            rec["kind"] = "SchemaError"
            rec["errors"] = [proj.schema_error(e)]
        except (SchemaDefinitionError, SchemaInitError) as e:
            rec["kind"] = type(e).__name__
        except Exception as e:  # noqa: BLE001 - an undocumented exception escaping validate
            rec["kind"] = "Leak:" + type(e).__name__
            rec["msg"] = str(e)[:300]
    rec["warnings"] = sum(1 for x in w if issubclass(x.category, pa.errors.SchemaWarning))
    return rec


def observe_series(vec: Dict[str, Any]) -> Dict[str, Any]:
    schema = conc.series_schema(vec["schema"])
    ser = conc.pd_series(vec["data"])
    snap0 = proj.snapshot(ser)
    obs: Dict[str, Any] = {}
    opts = vec.get("opts", {})
    for mode in ("eager", "lazy"):
        kw = dict(lazy=(mode == "lazy"))
        for k in ("head", "tail", "sample", "random_state", "inplace"):
            if opts.get(k) is not None:
                kw[k] = opts[k]
        obs[mode] = run_validate(schema, ser, proj.field, **kw)
        obs[mode]["input_unchanged"] = proj.snapshot(ser) == snap0
    return obs


def observe_frame(vec: Dict[str, Any]) -> Dict[str, Any]:
    schema = conc.frame_schema(vec["schema"])
    df = conc.pd_frame(vec["data"])
    snap0 = proj.snapshot(df)
    obs: Dict[str, Any] = {}
    opts = vec.get("opts", {})
    modes = ("lazy",) if vec["schema"].get("drop") else ("eager", "lazy")
    for mode in modes:
        kw = dict(lazy=(mode == "lazy"))
        for k in ("head", "tail", "sample", "random_state", "inplace"):
            if opts.get(k) is not None:
                kw[k] = opts[k]
        obs[mode] = run_validate(schema, df, proj.frame, **kw)
        obs[mode]["input_unchanged"] = proj.snapshot(df) == snap0
    return obs


def _kw(vec):
    opts = vec.get("opts", {})
    kw = {}
    for k in ("lazy", "inplace"):
        if opts.get(k) is not None:
            kw[k] = opts[k]
    # the specification writes "option not given" as -1 (head/tail) and 0 (sample)
    for k in ("head", "tail"):
        if opts.get(k) is not None and opts[k] >= 0:
            kw[k] = opts[k]
    if opts.get("sample"):
        kw["sample"] = opts["sample"]
        kw["random_state"] = opts.get("random_state", 0)
    return kw


def _run_once(schema_of, obj, project, vec) -> Dict[str, Any]:
    """one validate call in the mode the vector names + the observed post-conditions"""
    schema = schema_of(vec["schema"])
    snap0 = proj.snapshot(obj)
    kind0 = type(obj).__name__
    res = run_validate(schema, obj, project, **_kw(vec))
    res["input_unchanged"] = proj.snapshot(obj) == snap0
    try:
        res["input_after"] = project(obj)
    except Exception as exc:  # noqa: BLE001
        res["input_after"] = {"unprojectable": repr(exc)}
    res["input_type"] = kind0
    opts = vec.get("opts", {})
    if opts.get("sample"):
        # the sampled positions are an environment input of the specification: confirm them with pandas itself
        import pandas as pd

        n = len(obj)
        res["sample_positions"] = [int(p) + 1 for p in
                                   pd.Series(range(n)).sample(opts["sample"], random_state=opts.get("random_state", 0)).tolist()]
    return res


def _postconditions(schema_of, vec, res, out_obj_builder) -> None:
    """C03 observed on the implementation itself: re-submit what validate returned"""
    if res["kind"] != "ok":
        return
    out = out_obj_builder()
    stripped = schema_of(conc.strip(vec["schema"]))
    r1 = run_validate(stripped, out, lambda x: None, lazy=True)
    res["stripped_accepts"] = r1["kind"] == "ok"
    res["stripped_kind"] = r1["kind"]
    again = run_validate(schema_of(vec["schema"]), out, (proj.field if res["type"] == "Series" else proj.frame), lazy=True)
    res["again_kind"] = again["kind"]
    res["again_returned"] = again.get("returned")


def observe_series_run(vec: Dict[str, Any]) -> Dict[str, Any]:
    ser = conc.pd_series(vec["data"])
    res = _run_once(conc.series_schema, ser, proj.field, vec)
    if res["kind"] == "ok":
        # rebuild the returned object from a second, identical call (the first result was projected)
        ser2 = conc.pd_series(vec["data"])
        schema = conc.series_schema(vec["schema"])

        def again():
            return schema.validate(ser2, **_kw(vec))

        try:
            _postconditions(conc.series_schema, vec, res, again)
        except Exception as exc:  # noqa: BLE001
            res["post_error"] = "%s: %s" % (type(exc).__name__, exc)
    return res


def observe_frame_run(vec: Dict[str, Any]) -> Dict[str, Any]:
    df = conc.pd_frame(vec["data"])
    res = _run_once(conc.frame_schema, df, proj.frame, vec)
    if res["kind"] == "ok":
        df2 = conc.pd_frame(vec["data"])
        schema = conc.frame_schema(vec["schema"])

        def again():
            return schema.validate(df2, **_kw(vec))

        try:
            _postconditions(conc.frame_schema, vec, res, again)
        except Exception as exc:  # noqa: BLE001
            res["post_error"] = "%s: %s" % (type(exc).__name__, exc)
    return res


def observe_frame_both(vec: Dict[str, Any]) -> Dict[str, Any]:
    """lazy, then eager, then lazy again on ONE schema object (a failed lazy run must not change later runs)"""
    schema = conc.frame_schema(vec["schema"])
    obs: Dict[str, Any] = {}
    for mode in ("lazy", "eager", "lazy2"):
        df = conc.pd_frame(vec["data"])
        kw = _kw(vec)
        kw["lazy"] = mode != "eager"
        obs[mode] = run_validate(schema, df, proj.frame, **kw)
    return obs


def observe_series_both(vec: Dict[str, Any]) -> Dict[str, Any]:
    schema = conc.series_schema(vec["schema"])
    obs: Dict[str, Any] = {}
    for mode in ("lazy", "eager", "lazy2"):
        ser = conc.pd_series(vec["data"])
        kw = _kw(vec)
        kw["lazy"] = mode != "eager"
        obs[mode] = run_validate(schema, ser, proj.field, **kw)
    return obs
