"""Replay MultiIndex.tla: a MultiIndex schema component, stand-alone and as the index of a DataFrameSchema."""
from __future__ import annotations

import warnings
from typing import Any, Dict, List

from . import conc, proj


def _array(pd_kind: str, cells: List[List[Any]]):
    import numpy as np

    vals = [None if c[0] == "na" else (c[1] / 2.0 if c[0] == "f" else int(c[1])) for c in cells]
    if pd_kind == "int64":
        return np.array(vals, dtype="int64")
    return np.array([np.nan if v is None else v for v in vals], dtype="float64")


def build(vec: Dict[str, Any]):
    import pandas as pd
    import pandera as pa

    S = vec["schema"]
    levels = vec["levels"]
    n = len(levels[0]["cells"])
    mi = pd.MultiIndex.from_arrays([_array(l["pd"], l["cells"]) for l in levels], names=[l["name"] for l in levels])
    df = pd.DataFrame({"x": list(range(n))}, index=mi)
    dt = {"float64": float, "int64": int}
    comps = [pa.Index(dt[l["dtype"]], checks=[conc.check(c, pa) for c in l["checks"]], coerce=bool(l["coerce"]), name=l["name"])
             for l in S["lv"]]
    kw: Dict[str, Any] = {}
    if S["unique"]:
        kw["unique"] = [l["name"] for l in S["lv"]]
    comp = pa.MultiIndex(comps, coerce=bool(S["coerce"]), strict=bool(S["strict"]), ordered=bool(S["ordered"]), **kw)
    return comp, df


def p_index(df) -> List[Dict[str, Any]]:
    ix = df.index
    out = []
    for j in range(ix.nlevels):
        lv = ix.get_level_values(j)
        out.append({"name": ix.names[j], "pd": str(lv.dtype), "cells": [proj.aval(v) for v in lv.tolist()]})
    return out


def _run(validate, df, vec, kind=None) -> Dict[str, Any]:
    import pandas as pd
    import pandera as pa

    kind = kind or pd.DataFrame
    out: Dict[str, Any] = {}
    snap = proj.snapshot(df)
    before = p_index(df)
    try:
        res = validate(df, lazy=bool(vec["opts"]["lazy"]), inplace=bool(vec["opts"]["inplace"]))
        out["kind"] = "ok"
        out["type_ok"] = type(res) is kind
        out["returned"] = p_index(res)
        out["x_ok"] = list(res["x"] if kind is pd.DataFrame else res) == list(range(len(res)))
        out["same_object"] = res is df
    except pa.errors.SchemaErrors as e:
        out["kind"] = "SchemaErrors"
        out["reasons"] = sorted({x.reason_code.name for x in e.schema_errors})
    except pa.errors.SchemaError as e:
        out["kind"] = "SchemaError"
        out["reasons"] = [e.reason_code.name] if e.reason_code is not None else []
    except Exception as e:  # noqa: BLE001
        out["kind"] = "Leak:" + type(e).__name__
        out["msg"] = str(e)[:160]
    out["input_unchanged"] = proj.snapshot(df) == snap
    out["caller_after"] = p_index(df)
    out["caller_before"] = before
    return out


def observe_multiindex(vec: Dict[str, Any]) -> Dict[str, Any]:
    import pandera as pa

    with warnings.catch_warnings():
        warnings.simplefilter("ignore")
        comp, df = build(vec)
        out = _run(comp.validate, df, vec)
        comp2, df2 = build(vec)
        schema = pa.DataFrameSchema({"x": pa.Column(int)}, index=comp2)
        out["in_schema"] = _run(schema.validate, df2, vec)
        import pandas as pd

        comp3, df3 = build(vec)
        out["in_series"] = _run(pa.SeriesSchema(int, index=comp3).validate, df3["x"], vec, kind=pd.Series)
    return out
