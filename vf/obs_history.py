"""Replay operation histories (History.tla) on long-lived pandera schema objects, with fault injection."""
from __future__ import annotations

import copy
import pickle
import re
import warnings
from typing import Any, Dict, List

from . import proj
from .fingerprint import diff, fingerprint


class Kit:
    """the schema objects of History.tla with instrumented user callbacks"""

    def __init__(self):
        import pandas as pd
        import pandera as pa

        self.calls = 0
        self.fault_at = 0
        self.exc = "ValueError"
        kit = self

        def tick():
            kit.calls += 1
            if kit.fault_at and kit.calls == kit.fault_at:
                if kit.exc == "SchemaError":
                    # a realistic SchemaError: what a callback raises when it delegates to another schema
                    import pandas as _pd

                    pa.SeriesSchema(int, name="injected fault").validate(_pd.Series(["x"]))
                raise ValueError("injected fault")

        def p_id(s):
            tick()
            return s

        def f_pos(s):
            tick()
            return s > 0

        def f_nonneg(x):
            tick()
            return x >= 0

        def f_idx(s):
            tick()
            return s >= 0

        def f_frame(df):
            tick()
            return df["a"] > -5

        def f_rx(s):
            tick()
            return s >= 0

        self.fns = dict(p_id=p_id, f_pos=f_pos, f_nonneg=f_nonneg, f_idx=f_idx, f_frame=f_frame, f_rx=f_rx)
        self.pa = pa
        self.S = self.make_schema()
        self.RX = pa.Column(float, pa.Check(f_rx), name="b.*", regex=True)
        # a schema with a frame-level dtype and components without a dtype of their own
        self.SD = pa.DataFrameSchema({"a": pa.Column(checks=pa.Check.ge(0)), "b": pa.Column(float)},
                                     index=pa.Index(name="idx"), dtype=int)
        # a schema data can be synthesised for: built-in checks only, jointly unique columns
        self.SU = pa.DataFrameSchema({"a": pa.Column(int, pa.Check.ge(0)), "b": pa.Column(float, pa.Check.in_range(0, 10)),
                                      "c": pa.Column(int, pa.Check.isin([1, 2, 3]))}, unique=["a", "b"], index=pa.Index(int))
        self.typed = {True: pd.DataFrame({"a": [1, 2], "b": [3, 4]}, index=pd.Index([0, 1], name="idx")),
                      False: pd.DataFrame({"a": [1.5, 2.0], "b": [3, 4]}, index=pd.Index([0, 1], name="idx"))}
        self.frames = {
            "good": pd.DataFrame({"a": [1, 2], "b1": [0.5, 1.0], "b2": [1.0, 2.0]}),
            "badcheck": pd.DataFrame({"a": [1, -1], "b1": [0.5, 1.0], "b2": [1.0, -2.0]}),
            "badcoerce": pd.DataFrame({"a": ["x", "1"], "b1": [0.5, 1.0], "b2": [1.0, 2.0]}),
        }
        # warm-up: the first validation registers back ends process-wide
        # (done on throw-away objects so that the snapshots below are those of never-used schemas)
        kit.fault_at = 0
        self.make_schema().validate(self.frames["good"])
        pa.Column(float, pa.Check(f_rx), name="b.*", regex=True).validate(self.frames["good"])
        self.fp_S = fingerprint(self.S)
        self.fp_RX = fingerprint(self.RX)
        self.fp_SD = fingerprint(self.SD)
        self.fp_SU = fingerprint(self.SU)

    def make_schema(self):
        pa = self.pa
        f = self.fns
        return pa.DataFrameSchema(
            {"a": pa.Column(int, checks=[pa.Check(f["f_pos"])], coerce=True, parsers=[pa.Parser(f["p_id"])]),
             "b.*": pa.Column(float, pa.Check(f["f_nonneg"], element_wise=True), regex=True, nullable=True)},
            index=pa.Index(int, pa.Check(f["f_idx"])),
            checks=[pa.Check(f["f_frame"]), pa.Check.ge(-100)],
            strict=True)

    def hidden(self) -> List[str]:
        names = set()
        for path, _a, _b in diff(self.fp_S, fingerprint(self.S)):
            names.add(_abstract("S", path))
        for path, _a, _b in diff(self.fp_RX, fingerprint(self.RX)):
            names.add(_abstract("RX", path))
        for path, _a, _b in diff(self.fp_SD, fingerprint(self.SD)):
            names.add(_abstract("SD", path))
        for path, _a, _b in diff(self.fp_SU, fingerprint(self.SU)):
            names.add(_abstract("SU", path))
        return sorted(names)


def _abstract(obj: str, path: str) -> str:
    if obj == "S" and re.match(r"^\$\.columns\{'b\.\*'\}\.name$", path):
        return "S.rx.name"
    if obj == "RX" and path == "$.name":
        return "RX.name"
    if obj == "S" and re.match(r"^\$\.checks\[\d+\]\.statistics", path):
        return "S.stats.options"
    if obj == "S" and path == "$.columns{'a'}.coerce":
        return "S.a.coerce"
    return "other:%s:%s" % (obj, path)


def _cfg():
    from pandera import config

    c = config.get_config_context(validation_depth_default=None)
    return (c.validation_enabled, c.validation_depth, c.cache_dataframe, c.keep_cached_dataframe)


def _do_validate(kit: Kit, target, op) -> Dict[str, Any]:
    pa = kit.pa
    df = kit.frames[op["frame"]].copy()
    snap = proj.snapshot(df)
    cfg0 = _cfg()
    kit.calls = 0
    kit.fault_at = int(op["fault"])
    kit.exc = op["exc"]
    try:
        with warnings.catch_warnings():
            warnings.simplefilter("ignore")
            target.validate(df, lazy=bool(op["lazy"]))
        outcome = "ok"
    except pa.errors.SchemaErrors:
        outcome = "SchemaErrors"
    except pa.errors.SchemaError:
        outcome = "SchemaError"
    except ValueError as e:
        outcome = "Propagates" if str(e) == "injected fault" else "Leak:ValueError"
    except Exception as e:  # noqa: BLE001
        outcome = "Leak:" + type(e).__name__
    finally:
        kit.fault_at = 0
    return {"outcome": outcome, "calls": kit.calls, "hidden": kit.hidden(),
            "input_unchanged": proj.snapshot(df) == snap, "cfg_unchanged": _cfg() == cfg0}


def observe_history(vec: Dict[str, Any]) -> Dict[str, Any]:
    import pandera as pa

    kit = Kit()
    out: List[Dict[str, Any]] = []
    S = kit.S
    for op in vec["hist"]:
        name = op["op"]
        rec: Dict[str, Any]
        if name == "validate":
            rec = _do_validate(kit, S, op)
        elif name == "column_validate":
            rec = _do_validate(kit, kit.RX, op)
        elif name == "validate_typed":
            try:
                kit.SD.validate(kit.typed[bool(op["good"])].copy(), lazy=bool(op["lazy"]))
                outcome = "ok"
            except pa.errors.SchemaErrors:
                outcome = "SchemaErrors"
            except pa.errors.SchemaError:
                outcome = "SchemaError"
            except Exception as e:  # noqa: BLE001
                outcome = "Leak:" + type(e).__name__
            rec = {"outcome": outcome, "calls": 0, "hidden": kit.hidden(), "input_unchanged": True, "cfg_unchanged": True}
        else:
            outcome = "ok"
            try:
                with warnings.catch_warnings():
                    warnings.simplefilter("ignore")
                    if name == "serialise":
                        fmt = op["fmt"]
                        if fmt == "yaml":
                            S.to_yaml()
                        elif fmt == "json":
                            S.to_json()
                        elif fmt == "script":
                            S.to_script()
                        else:
                            pa.schema_statistics.get_dataframe_schema_statistics(S)
                    elif name == "repr":
                        repr(S), str(S), repr(kit.RX)
                    elif name == "eq":
                        outcome = "equal" if S == kit.make_schema() else "unequal"
                    elif name == "deepcopy":
                        copy.deepcopy(S), copy.copy(S)
                    elif name == "pickle":
                        copy.deepcopy(kit.RX)      # local callbacks cannot be pickled; copy protocol instead
                    elif name == "strategy":
                        S.strategy(size=2)
                        kit.SU.strategy(size=2)
                    elif name == "example":
                        ex = kit.SU.example(size=2)
                        outcome = "ok" if len(ex) == 2 else "example_of_wrong_size"
                    elif name == "coerce_dtype":
                        S.coerce_dtype(kit.frames["good"].copy())
                    elif name == "add_columns":
                        r = S.add_columns({"z": pa.Column(int)})
                        outcome = "ok" if r is not S and "z" not in S.columns else "receiver_changed"
                    elif name == "remove_columns":
                        r = S.remove_columns(["a"])
                        outcome = "ok" if r is not S and "a" in S.columns else "receiver_changed"
                    elif name == "update_column":
                        r = S.update_column("a", nullable=True)
                        outcome = "ok" if r is not S and S.columns["a"].nullable is False else "receiver_changed"
                    elif name == "rename_columns":
                        r = S.rename_columns({"a": "q"})
                        outcome = "ok" if r is not S and "a" in S.columns else "receiver_changed"
                    elif name == "select_columns":
                        r = S.select_columns(["a"])
                        outcome = "ok" if r is not S and len(S.columns) == 2 else "receiver_changed"
                    elif name == "set_index":
                        r = S.set_index(["a"])
                        outcome = "ok" if r is not S and "a" in S.columns else "receiver_changed"
                    elif name == "reset_index":
                        r = S.reset_index()
                        outcome = "ok" if r is not S and S.index is not None else "receiver_changed"
                    else:
                        raise ValueError("unknown op %s" % name)
            except Exception as e:  # noqa: BLE001
                outcome = "Leak:" + type(e).__name__
            rec = {"outcome": outcome, "calls": 0, "hidden": kit.hidden(), "input_unchanged": True, "cfg_unchanged": True}
        out.append(rec)
    return {"obs": out}
