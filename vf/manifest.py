"""Regenerate MANIFEST.json from the registry (python -m vf.manifest)."""
from __future__ import annotations

import json
from pathlib import Path

from .props import registry

ROOT = Path(__file__).resolve().parent.parent
BASELINE = json.loads(Path("/root/.vp/BASELINE.json").read_text())["cmd"] if Path("/root/.vp/BASELINE.json").exists() else ""

LEVEL_TEXT = {
}

PENDING_REASON = "not claimed yet: specification module and conformance harness for this property are not built in this revision (see DESIGN.md section 12, build order)"


def main() -> None:
    reg = registry()
    props = [json.loads(l) for l in (ROOT / "properties.jsonl").read_text().splitlines() if l.strip()]
    checks = []
    na = []
    meta_path = ROOT / "vf" / "manifest_meta.json"
    meta = json.loads(meta_path.read_text()) if meta_path.exists() else {}
    for p in props:
        pid = p["id"]
        if pid in reg:
            m = meta.get(pid, {})
            checks.append({
                "property_id": pid,
                "quick_cmd": "./check %s --tier quick" % pid,
                "thorough_cmd": "./check %s --tier thorough" % pid,
                "evidence_file": "/verif/evidence/%s.json" % pid,
                "replay_cmd_template": "./check %s --replay {path}" % pid,
                "engine": "tlc+replay",
                "level_claimed": {
                    "category": "model_checking",
                    "text": m.get("text", reg[pid].rule),
                    "design_ref": "DESIGN.md section 7, %s" % pid,
                },
                "level_note": m.get("note", "Trusted base: TLC 1.8, the Python concretize/project layer (representation only, no semantics), pandas/polars as data carriers. Exhaustive only inside the stated small constants."),
                "technique": m.get("technique") or reg[pid].technique or ("explicit TLA+ specification model-checked with TLC; TLC-generated vectors replayed into the implementation (spec->code conformance)"),
            })
        else:
            na.append({"property_id": pid, "reason": meta.get(pid, {}).get("na", PENDING_REASON)})
    man = {
        "version": 1,
        "setup_cmd": "./check --setup",
        "hooks": {
            "guard": "PANDERA_VERIF",
            "enable": "checks set PANDERA_VERIF=1 in their own worker processes; instrumentation is harness-side (wrappers installed from /verif), no build step",
            "baseline_off_cmd": BASELINE.replace("<file>", "/tmp/pandera-baseline.junit.xml"),
            "source_commits": meta.get("_hooks", []),
            "add_only": True,
        },
        "engines": [
            {"name": "tlc+replay", "path": "/verif/check", "serves_properties": sorted(reg),
             "kind_free_text": "TLA+ specification in /verif/spec model-checked by TLC; vectors/behaviours replayed into pandera (vf/), recorded traces validated by TLC"},
        ],
        "checks": checks,
        "not_applicable": na,
        "notes": "See DESIGN.md. Known findings: known_findings.json. Exit codes: 0 held, 1 VIOLATION, 2 machinery failure.",
    }
    (ROOT / "MANIFEST.json").write_text(json.dumps(man, indent=1))
    print("MANIFEST.json: %d checks, %d not_applicable" % (len(checks), len(na)))


if __name__ == "__main__":
    main()
