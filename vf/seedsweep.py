"""Run the quick checks against every seeded change (seeded/<id>/patch.diff) in scratch worktrees.

usage: python -m vf.seedsweep [ids...]   -> prints one line per seeded change and writes seeded/RESULTS.json
The patched tree is a git worktree of /repo HEAD under /tmp (removed afterwards); the check imports pandera
from it through PYTHONPATH, evidence and replay files go to a scratch directory, /repo is never modified.
"""
from __future__ import annotations

import json
import os
import shutil
import subprocess
import sys
import tempfile
import time
from concurrent.futures import ThreadPoolExecutor
from pathlib import Path

ROOT = Path(__file__).resolve().parent.parent


def one(sid: str) -> dict:
    d = ROOT / "seeded" / sid
    meta = json.loads((d / "meta.json").read_text())
    props = meta.get("detect_with") or [meta.get("breaks_property") or meta.get("property")]
    wt = tempfile.mkdtemp(prefix="sw-%s-" % sid)
    os.rmdir(wt)
    scratch = tempfile.mkdtemp(prefix="sw-out-%s-" % sid)
    res = {"id": sid, "properties": props, "runs": {}}
    try:
        p = subprocess.run(["git", "-C", "/repo", "worktree", "add", "--detach", wt, "HEAD"], capture_output=True, text=True)
        if p.returncode:
            res["error"] = "worktree: " + p.stderr[-200:]
            return res
        p = subprocess.run(["git", "apply", str(d / "patch.diff")], cwd=wt, capture_output=True, text=True)
        if p.returncode:
            p = subprocess.run(["git", "apply", "--3way", str(d / "patch.diff")], cwd=wt, capture_output=True, text=True)
        res["patch_applies"] = p.returncode == 0
        if p.returncode:
            res["error"] = "patch does not apply to the current tree: " + p.stderr[-300:]
            return res
        env = dict(os.environ)
        env.update({"PYTHONPATH": wt, "VF_EVIDENCE_DIR": os.path.join(scratch, "evidence"), "VF_REPLAY_DIR": os.path.join(scratch, "replays"),
                    "VERIF_NPROC": os.environ.get("VERIF_SWEEP_NPROC", "6")})
        for prop in props:
            t0 = time.time()
            q = subprocess.run([str(ROOT / "check"), prop, "--tier", "quick"], cwd=str(ROOT), env=env, capture_output=True, text=True,
                               timeout=3600)
            lines = [l for l in q.stdout.splitlines() if l.startswith("VIOLATION")]
            first = ""
            for i, l in enumerate(q.stdout.splitlines()):
                if l.startswith("VIOLATION"):
                    nxt = q.stdout.splitlines()[i + 1:i + 2]
                    first = (nxt[0].strip() if nxt else "")[:300]
                    break
            res["runs"][prop] = {"exit": q.returncode, "violations": len(lines), "first": first, "wall_s": round(time.time() - t0, 1),
                                 "stderr_tail": q.stderr[-300:] if q.returncode not in (0, 1) else ""}
    finally:
        subprocess.run(["git", "-C", "/repo", "worktree", "remove", "--force", wt], capture_output=True)
        shutil.rmtree(scratch, ignore_errors=True)
    return res


def main(argv):
    ids = argv or sorted(p.name for p in (ROOT / "seeded").iterdir() if p.is_dir())
    par = int(os.environ.get("VERIF_SWEEP_PAR", "2"))
    out_path = ROOT / "seeded" / "RESULTS.json"
    results = json.loads(out_path.read_text()) if out_path.exists() else {}
    with ThreadPoolExecutor(max_workers=par) as ex:
        for r in ex.map(one, ids):
            results = json.loads(out_path.read_text()) if out_path.exists() else {}     # other sweeps may be running
            results[r["id"]] = r
            caught = [p for p, x in r.get("runs", {}).items() if x["exit"] == 1]
            print("%s: %s %s" % (r["id"], "CAUGHT by " + ",".join(caught) if caught else "MISSED" if not r.get("error") else "ERROR " + r["error"][:120],
                                 json.dumps({p: (x["exit"], x["violations"], x["wall_s"]) for p, x in r.get("runs", {}).items()})), flush=True)
            out_path.write_text(json.dumps(results, indent=1, sort_keys=True))
    return 0


if __name__ == "__main__":
    sys.exit(main(sys.argv[1:]))
