"""Concretize abstract JSON into polars frames and pandera.polars schemas (representation only)."""
from __future__ import annotations

from typing import Any, Dict

from . import conc


def pl_dtype(name: str):
    import polars as pl

    return {"int64": pl.Int64, "float64": pl.Float64, "str": pl.String, "object": pl.String, "bool": pl.Boolean,
            "Int64": pl.Int64, "none": None}[name]


def pl_frame(fr: Dict[str, Any]):
    import polars as pl

    data = {}
    for c in fr["cols"]:
        vals = [conc.val(x, None) for x in c["cells"]]
        data[conc.val(c["name"])] = pl.Series(conc.val(c["name"]), vals, dtype=pl_dtype(c["pd"]))
    return pl.DataFrame(data)


def pl_schema(s: Dict[str, Any]):
    import pandera as pa
    import pandera.polars as pap

    cols = {}
    for c in s["cols"]:
        kw = dict(checks=[conc.check(x, pa) for x in c["checks"]], nullable=bool(c["nullable"]), unique=bool(c["unique"]),
                  required=bool(c["required"]), regex=bool(c["regex"]))
        if c.get("coerce"):
            kw["coerce"] = True
        if not conc.is_na(c["default"]):
            kw["default"] = conc.val(c["default"])
        cols[conc.val(c["key"])] = pap.Column(pl_dtype(c["dtype"]), **kw)
    strict = {"no": False, "yes": True, "filter": "filter"}[s["strict"]]
    kw = {}
    if s.get("unique"):
        kw["unique"] = [conc.val(x) for x in s["unique"]]
    return pap.DataFrameSchema(cols, strict=strict, ordered=bool(s["ordered"]), add_missing_columns=bool(s["addmiss"]),
                               coerce=bool(s["coerce"]), **kw)
