"""Render seeded/RESULTS.json (+ meta.json of every seeded change) as the table of DESIGN.md section 16."""
from __future__ import annotations

import json
import re
from pathlib import Path

ROOT = Path(__file__).resolve().parent.parent
BEGIN, END = "<!-- SEEDED-TABLE-BEGIN -->", "<!-- SEEDED-TABLE-END -->"


def main() -> None:
    res = json.loads((ROOT / "seeded" / "RESULTS.json").read_text())
    rows = ["| id | what the change does (needs) | caught by (quick tier) | first report |", "|----|------|------|------|"]
    caught = missed = 0
    for d in sorted(p for p in (ROOT / "seeded").iterdir() if p.is_dir()):
        sid = d.name
        meta = json.loads((d / "meta.json").read_text())
        summ = re.sub(r"\s+", " ", (meta.get("summary") or ""))[:230]
        needs = re.sub(r"\s+", " ", (meta.get("needs") or ""))[:170]
        r = res.get(sid, {})
        by = [p for p, x in r.get("runs", {}).items() if x.get("exit") == 1]
        first = next((x.get("first", "") for p, x in r.get("runs", {}).items() if x.get("exit") == 1), "")
        if by:
            caught += 1
        else:
            missed += 1
        rows.append("| %s | %s **Needs:** %s | %s | %s |" % (sid, summ.replace("|", "/"), needs.replace("|", "/"),
                                                           ", ".join(by) if by else ("NOT CAUGHT" if r else "not swept"),
                                                           re.sub(r"\s+", " ", first)[:160].replace("|", "/")))
    text = "%d seeded changes, %d caught by the quick tier of the listed check, %d not caught.\n\n%s\n" % (caught + missed, caught, missed, "\n".join(rows))
    p = ROOT / "DESIGN.md"
    s = p.read_text()
    if BEGIN in s:
        s = s[:s.index(BEGIN) + len(BEGIN)] + "\n" + text + s[s.index(END):]
    else:
        s = s.replace("SEEDED_TABLE_PLACEHOLDER", BEGIN + "\n" + text + END)
    p.write_text(s)
    print("seeded table: %d caught, %d missed" % (caught, missed))


if __name__ == "__main__":
    main()
