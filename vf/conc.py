"""Concretize abstract JSON (emitted by TLC) into pandas / polars / pandera objects.

No semantics live here: this is a representation change only.  The string and
regex tables are not duplicated in Python - they are read from the header
vector that the specification prints (Values!StrTable, Values!ReTable).
"""
from __future__ import annotations

import math
from typing import Any, Dict, List, Optional

TABLES: Dict[str, Any] = {"str": None, "re": None}


def set_tables(header: Dict[str, Any]) -> None:
    TABLES["str"] = ["".join(s) for s in header["strtable"]]
    TABLES["re"] = [render_re(r, top=True) for r in header["retable"]]


def render_re(r: Dict[str, Any], top: bool = False) -> str:
    """Render the regex AST the way a user writes it (top-level `a|b` bare)."""
    op = r["op"]
    if op == "lit":
        return r["c"]
    if op == "dot":
        return "."
    if op == "bol":
        return "^"
    if op == "eol":
        return "$"
    if op == "cat":
        return _grp(r["l"], "cat") + _grp(r["r"], "cat")
    if op == "alt":
        s = render_re(r["l"]) + "|" + render_re(r["r"])
        return s
    if op == "star":
        return _grp(r["l"], "post") + "*"
    if op == "opt":
        return _grp(r["l"], "post") + "?"
    raise ValueError(op)


def _grp(r: Dict[str, Any], ctx: str) -> str:
    s = render_re(r)
    if r["op"] == "alt":
        return "(?:" + s + ")"
    if ctx == "post" and r["op"] in ("cat", "star", "opt"):
        return "(?:" + s + ")"
    return s


def val(v: List[Any], null: Any = None) -> Any:
    """abstract value -> python scalar"""
    tag, p = v[0], v[1]
    if tag == "i":
        return int(p)
    if tag == "f":
        return p / 2.0
    if tag == "s":
        return TABLES["str"][p - 1]
    if tag == "b":
        return bool(p)
    if tag == "na":
        return null
    if tag == "re":
        return TABLES["re"][p - 1]
    raise ValueError("unknown value tag %r" % (v,))


def is_na(v: List[Any]) -> bool:
    return v[0] == "na"


# --------------------------------------------------------------------------
# pandas
# --------------------------------------------------------------------------

def pd_array(pdtype: str, cells: List[List[Any]]):
    import numpy as np
    import pandas as pd

    if pdtype == "int64":
        return np.array([val(c) for c in cells], dtype="int64")
    if pdtype == "float64":
        return np.array([val(c, float("nan")) for c in cells], dtype="float64")
    if pdtype == "bool":
        return np.array([val(c) for c in cells], dtype="bool")
    if pdtype == "object":
        arr = np.empty(len(cells), dtype=object)
        for i, c in enumerate(cells):
            arr[i] = val(c, None)
        return arr
    if pdtype == "Int64":
        return pd.array([val(c, pd.NA) for c in cells], dtype="Int64")
    if pdtype == "datetime64[ns]":
        return np.array([_dt(c) for c in cells], dtype="datetime64[ns]")
    raise ValueError(pdtype)


def _dt(c):
    import numpy as np

    if c[0] == "na":
        return np.datetime64("NaT")
    return np.datetime64("2020-01-01") + np.timedelta64(int(c[1]), "D")


def pd_index(labels: List[Any], name: Any = None, pdtype: Optional[str] = None):
    """labels: list of abstract values, or list of lists (MultiIndex levels per row)."""
    import pandas as pd

    if labels and labels[0] and isinstance(labels[0][0], list):
        tuples = [tuple(val(x, None) for x in row) for row in labels]
        names = name if isinstance(name, list) else None
        return pd.MultiIndex.from_tuples(tuples, names=names)
    n = len(labels)
    if pdtype == "float64":
        ix = pd.Index([val(l, float("nan")) for l in labels], dtype="float64")
    elif pdtype == "object":
        ix = pd.Index([val(l, None) for l in labels], dtype="object")
    elif all(l[0] == "i" for l in labels):
        ints = [l[1] for l in labels]
        if ints == list(range(n)):
            ix = pd.RangeIndex(n)
        else:
            ix = pd.Index(ints, dtype="int64")
    elif all(l[0] in ("f", "na") for l in labels):
        ix = pd.Index([val(l, float("nan")) for l in labels], dtype="float64")
    else:
        ix = pd.Index([val(l, None) for l in labels], dtype="object")
    if name is not None:
        ix = ix.rename(name)
    return ix


def pd_series(f: Dict[str, Any]):
    import pandas as pd

    name = None if is_na(f["name"]) else val(f["name"])
    return pd.Series(pd_array(f["pd"], f["cells"]), index=pd_index(f["idx"], _idxname(f), f.get("idxpd")), name=name)


def _idxname(f: Dict[str, Any]):
    nm = f.get("idxname")
    if nm is None:
        return None
    if isinstance(nm, list) and nm and isinstance(nm[0], list):
        return [None if is_na(x) else val(x) for x in nm]
    return None if is_na(nm) else val(nm)


def pd_frame(fr: Dict[str, Any]):
    """frame: {cols:[{name,pd,cells}], idx:[...], idxname?}; duplicate labels allowed."""
    import pandas as pd

    idx = pd_index(fr["idx"], _idxname(fr), fr.get("idxpd"))
    cols = fr["cols"]
    if not cols:
        return pd.DataFrame(index=idx)
    parts = [pd.Series(pd_array(c["pd"], c["cells"]), index=idx) for c in cols]
    df = pd.concat(parts, axis=1) if parts else pd.DataFrame(index=idx)
    df.columns = [val(c["name"]) for c in cols]
    return df


DT = {"none": None, "int64": "int64", "float64": "float64", "str": str, "bool": "bool",
      "object": "object", "Int64": "Int64", "datetime": "datetime64[ns]"}


def check(c: Dict[str, Any], pa=None):
    import pandera as _pa

    pa = pa or _pa
    k = c["k"]
    a = c["a"]
    kw = {"ignore_na": bool(c["ina"])}
    if c.get("nfc"):
        kw["n_failure_cases"] = int(c["nfc"])
    if c.get("warn"):
        kw["raise_warning"] = True
    if k in ("eq", "ne", "gt", "ge", "lt", "le"):
        return getattr(pa.Check, k)(val(a[0]), **kw)
    if k == "in_range":
        return pa.Check.in_range(val(a[0]), val(a[1]), include_min=val(a[2]), include_max=val(a[3]), **kw)
    if k in ("isin", "notin"):
        return getattr(pa.Check, k)([val(x) for x in a], **kw)
    if k in ("str_matches", "str_contains", "str_startswith", "str_endswith"):
        return getattr(pa.Check, k)(val(a[0]), **kw)
    if k == "str_length":
        return pa.Check.str_length(val(a[0], None), val(a[1], None), **kw)
    if k == "unique_values_eq":
        return pa.Check.unique_values_eq([val(x) for x in a], **kw)
    if k == "custom":
        from . import predicates

        return predicates.make_check(c, pa)
    raise ValueError(k)


def series_schema(s: Dict[str, Any]):
    import pandera as pa

    return pa.SeriesSchema(
        DT[s["dtype"]],
        checks=[check(c) for c in s["checks"]],
        nullable=bool(s["nullable"]),
        unique=bool(s["unique"]),
        report_duplicates=s["report"],
        name=None if is_na(s["name"]) else val(s["name"]),
        **_series_index(s),
        **_parse_opts(s),
    )


def _series_index(s: Dict[str, Any]) -> Dict[str, Any]:
    ix = s.get("index")
    if isinstance(ix, dict) and ("dtype" in ix or "levels" in ix):
        return {"index": index_schema(ix)}
    return {}


def strip(s: Dict[str, Any]) -> Dict[str, Any]:
    """the abstract schema with every parsing option switched off (mirrors Strip in the spec)"""
    import copy

    t = copy.deepcopy(s)
    t["coerce"] = False
    t["drop"] = False
    if "default" in t:
        t["default"] = ["na", 0]
    if isinstance(t.get("index"), dict) and "coerce" in t["index"]:
        t["index"]["coerce"] = False
    if "cols" in t:
        for c in t["cols"]:
            c["coerce"] = False
            c["default"] = ["na", 0]
            if "drop" in c:
                c["drop"] = False
        t["addmiss"] = False
        if t.get("strict") == "filter":
            t["strict"] = "yes"
    return t


def _parse_opts(s: Dict[str, Any]) -> Dict[str, Any]:
    kw: Dict[str, Any] = {}
    if s.get("coerce"):
        kw["coerce"] = True
    if "default" in s and not is_na(s["default"]):
        kw["default"] = val(s["default"])
    if s.get("drop"):
        kw["drop_invalid_rows"] = True
    return kw


def column_schema(c: Dict[str, Any], pa=None):
    import pandera as _pa

    pa = pa or _pa
    kw = dict(
        checks=[check(x, pa) for x in c["checks"]],
        nullable=bool(c["nullable"]),
        unique=bool(c["unique"]),
        report_duplicates=c["report"],
        required=bool(c["required"]),
        regex=bool(c["regex"]),
    )
    kw.update(_parse_opts(c))
    return pa.Column(DT[c["dtype"]], **kw)


def index_schema(s: Dict[str, Any], pa=None):
    import pandera as _pa

    pa = pa or _pa
    if "levels" in s:
        return pa.MultiIndex([index_schema(x, pa) for x in s["levels"]], **({"coerce": True} if s.get("coerce") else {}))
    return pa.Index(
        DT[s["dtype"]],
        checks=[check(c, pa) for c in s["checks"]],
        nullable=bool(s["nullable"]),
        unique=bool(s["unique"]),
        report_duplicates=s["report"],
        name=None if is_na(s["name"]) else val(s["name"]),
        **({"coerce": True} if s.get("coerce") else {}),
    )


def frame_schema(s: Dict[str, Any], pa=None):
    import pandera as _pa

    pa = pa or _pa
    cols = {}
    for c in s["cols"]:
        cols[val(c["key"])] = column_schema(c, pa)
    kw: Dict[str, Any] = {}
    if "dtype" in s.get("index", {}) or "levels" in s.get("index", {}):
        kw["index"] = index_schema(s["index"], pa)
    strict = {"no": False, "yes": True, "filter": "filter"}[s["strict"]]
    if s.get("unique"):
        kw["unique"] = [val(x) for x in s["unique"]]
    if s.get("checks"):
        kw["checks"] = [check(x, pa) for x in s["checks"]]
    return pa.DataFrameSchema(
        cols,
        strict=strict,
        ordered=bool(s["ordered"]),
        unique_column_names=bool(s["ucn"]),
        add_missing_columns=bool(s["addmiss"]),
        report_duplicates=s["report"],
        coerce=bool(s["coerce"]),
        drop_invalid_rows=bool(s["drop"]),
        **kw,
    )


def full_column(c: Dict[str, Any], pa=None, index: bool = False):
    """Column / Index with EVERY attribute of the abstract record (C15, C12)"""
    import pandera as _pa

    pa = pa or _pa
    kw: Dict[str, Any] = dict(checks=[check(x, pa) for x in c["checks"]], nullable=bool(c["nullable"]), unique=bool(c["unique"]),
                              report_duplicates=c["report"], coerce=bool(c["coerce"]))
    if not is_na(c["default"]):
        kw["default"] = val(c["default"])
    if c.get("title"):
        kw["title"] = "T"
    if c.get("desc"):
        kw["description"] = "D"
    if c.get("meta"):
        kw["metadata"] = {"k": 1}
    if c.get("drop"):
        kw["drop_invalid_rows"] = True
    if index:
        return pa.Index(DT[c["dtype"]], name=val(c["key"]), **kw)
    return pa.Column(DT[c["dtype"]], required=bool(c["required"]), regex=bool(c["regex"]), **kw)


def ops_schema(s: Dict[str, Any], pa=None):
    import pandera as _pa

    pa = pa or _pa
    cols = {val(c["key"]): full_column(c, pa) for c in s["cols"]}
    kw: Dict[str, Any] = {}
    if len(s["index"]) == 1:
        kw["index"] = full_column(s["index"][0], pa, index=True)
    elif len(s["index"]) > 1:
        kw["index"] = pa.MultiIndex([full_column(l, pa, index=True) for l in s["index"]])
    return pa.DataFrameSchema(cols, ordered=bool(s.get("ordered")), **kw)
