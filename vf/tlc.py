"""Run TLC / SANY and collect what the specification emits.

The specification is the oracle: every expected observable that the harness
compares against the implementation is computed by TLC and printed with
``PrintT(ToJson(...))`` from an invariant that is evaluated in terminal states.
This module only runs the tools and parses their output.
"""
from __future__ import annotations

import json
import os
import re
import shutil
import subprocess
import tempfile
import time
from dataclasses import dataclass, field
from pathlib import Path
from typing import Any, Dict, List, Optional

ROOT = Path(__file__).resolve().parent.parent
SPEC = ROOT / "spec"
JAR = "/opt/veriftools/tla/tla2tools.jar"


class MachineryError(RuntimeError):
    """Raised when TLC itself fails (exit 2 of the check, never a violation)."""


@dataclass
class TlcResult:
    ok: bool
    states_generated: int = 0
    distinct_states: int = 0
    depth: int = 0
    wall_s: float = 0.0
    vectors: List[Dict[str, Any]] = field(default_factory=list)
    invariant_violated: Optional[str] = None
    raw_tail: str = ""
    cmd: str = ""
    coverage: Dict[str, int] = field(default_factory=dict)
    error_trace: List[str] = field(default_factory=list)


_STR_LINE = re.compile(r'^"((?:[^"\\]|\\.)*)"$')


def _parse_printed(line: str) -> Optional[Dict[str, Any]]:
    m = _STR_LINE.match(line)
    if not m:
        return None
    try:
        inner = json.loads('"' + m.group(1) + '"')
        obj = json.loads(inner)
    except Exception:  # noqa: BLE001
        return None
    if isinstance(obj, dict):
        return obj
    return None


def java_cmd(extra_jvm: Optional[List[str]] = None) -> List[str]:
    cp = JAR
    cm = "/opt/veriftools/tla/CommunityModules-deps.jar"
    if os.path.exists(cm):
        cp = cp + ":" + cm
    return ["java", "-XX:+UseParallelGC", "-Xmx8g"] + (extra_jvm or []) + ["-cp", cp]


def run_tlc(
    module: str,
    cfg: str,
    *,
    workers: int = 8,
    simulate: Optional[str] = None,
    depth: Optional[int] = None,
    seed: Optional[int] = None,
    env: Optional[Dict[str, str]] = None,
    timeout: int = 1800,
    coverage: bool = False,
    cont: bool = False,
    spec_dir: Path = SPEC,
    dfs: bool = False,
    extra: Optional[List[str]] = None,
    sink=None,
) -> TlcResult:
    """Run TLC on spec/<module>.tla with config text or file ``cfg``.

    ``cfg`` is either a path relative to spec_dir or a literal config text
    (detected by a newline).
    """
    t0 = time.time()
    tmp = Path(tempfile.mkdtemp(prefix="vf-tlc-"))
    try:
        if "\n" in cfg or not (spec_dir / cfg).exists():
            cfg_path = tmp / (module.split("/")[-1] + ".cfg")
            cfg_path.write_text(cfg)
        else:
            cfg_path = spec_dir / cfg
        tool_env = dict(os.environ)
        if env:
            tool_env.update(env)
        jopts = []
        if dfs:
            jopts.append("-Dtlc2.tool.queue.IStateQueue=StateDeque")
        cmd = ["tlc"]
        use_java = False
        # the `tlc` wrapper is on PATH; fall back to java -cp if not
        if shutil.which("tlc") is None:
            use_java = True
        if use_java:
            cmd = java_cmd(jopts) + ["tlc2.TLC"]
        elif jopts:
            tool_env["JAVA_TOOL_OPTIONS"] = " ".join(jopts)
        cmd += ["-workers", str(workers), "-metadir", str(tmp / "meta"), "-noGenerateSpecTE"]
        if simulate is not None:
            cmd += ["-simulate", simulate]
        if depth is not None:
            cmd += ["-depth", str(depth)]
        if seed is not None:
            cmd += ["-seed", str(seed)]
        if coverage:
            cmd += ["-coverage", "1"]
        if cont:
            cmd += ["-continue"]
        if extra:
            cmd += extra
        cmd += ["-config", str(cfg_path), module + ".tla"]
        # the output is consumed line by line: a thorough exploration prints millions of vectors, which are
        # handed to `sink` (a streaming sampler) or collected in res.vectors; only the other lines are kept
        res = TlcResult(ok=False, cmd=" ".join(cmd))
        other: List[str] = []
        proc = subprocess.Popen(cmd, cwd=str(spec_dir), env=tool_env, stdout=subprocess.PIPE, stderr=subprocess.STDOUT,
                                text=True, bufsize=1 << 20)
        import threading

        fired: List[int] = []

        def _kill() -> None:
            fired.append(1)
            proc.kill()

        killer = threading.Timer(timeout, _kill)
        killer.start()
        try:
            assert proc.stdout is not None
            for ln in proc.stdout:
                ln = ln.rstrip("\n")
                if ln.startswith('"'):
                    v = _parse_printed(ln)
                    if v is not None:
                        if sink is not None:
                            sink(v, len(ln))
                        else:
                            res.vectors.append(v)
                        continue
                other.append(ln)
                if len(other) > 400000:
                    del other[2000:200000]
            proc.wait()
        finally:
            killer.cancel()
        if fired:
            raise MachineryError("TLC on %s exceeded %d s" % (module, timeout))
    finally:
        shutil.rmtree(tmp, ignore_errors=True)
        # TLC leaves "states" dirs only in metadir; nothing else to clean
    res.wall_s = time.time() - t0
    txt = "\n".join(other)
    res.raw_tail = "\n".join(other[-60:])
    m = None
    for m in re.finditer(r"(\d+) states generated, (\d+) distinct states found", txt):
        pass
    if m:
        res.states_generated = int(m.group(1))
        res.distinct_states = int(m.group(2))
    m = re.search(r"The depth of the complete state graph search is (\d+)", txt)
    if m:
        res.depth = int(m.group(1))
    m = re.search(r"Invariant (\S+) is violated", txt)
    if m:
        res.invariant_violated = m.group(1)
    m2 = re.search(r"Action property (\S+) is violated", txt)
    if m2 and not res.invariant_violated:
        res.invariant_violated = m2.group(1)
    if res.invariant_violated:
        idx = txt.find("is violated")
        tail = txt[idx:]
        # keep the head (which invariant, first states) and the end (the state where the run stopped)
        res.error_trace = (tail if len(tail) < 40000 else tail[:8000] + "\n...\n" + tail[-30000:]).splitlines()
    if coverage:
        for cm in re.finditer(r"<(\w+) line \d+, col \d+ to line \d+, col \d+ of module (\w+)>: (\d+):(\d+)", txt):
            res.coverage[cm.group(2) + "." + cm.group(1)] = int(cm.group(4))
    finished = "Model checking completed. No error has been found." in txt or (
        simulate is not None and proc.returncode == 0
    )
    res.ok = finished and res.invariant_violated is None
    if not res.ok and res.invariant_violated is None:
        # a TLC error that is not an invariant violation is a machinery error
        if "Finished in" not in txt or "Error:" in txt or proc.returncode not in (0,):
            raise MachineryError("TLC failed on %s:\n%s" % (module, "\n".join(other[-80:])))
    return res


def sany(module: str, spec_dir: Path = SPEC) -> None:
    proc = subprocess.run(
        ["tla-sany", module + ".tla"],
        cwd=str(spec_dir),
        stdout=subprocess.PIPE,
        stderr=subprocess.STDOUT,
        text=True,
        timeout=300,
    )
    if proc.returncode != 0 or "error" in proc.stdout.lower().replace("errors: 0", ""):
        if "Semantic errors" in proc.stdout or "Parse Error" in proc.stdout or proc.returncode != 0:
            raise MachineryError("SANY failed on %s:\n%s" % (module, proc.stdout[-3000:]))
