"""Structural fingerprint of a pandera schema object graph (C05/C06/C07).

A flat map  path -> printable value  over everything a schema carries: constructor attributes,
components, checks (incl. statistics and kwargs), parsers, dtype objects, index.  Callables are
identified by qualified name, dataframes by shape - the fingerprint is used to compare an object with
its own earlier self, never across objects.
"""
from __future__ import annotations

from typing import Any, Dict

SKIP_ATTRS = {"_backend", "BACKEND_REGISTRY", "CHECK_FUNCTION_REGISTRY", "REGISTERED_CUSTOM_CHECKS",
              "_function_registry"}   # process-wide dispatch tables of built-in checks, filled lazily: not schema state


def fingerprint(obj: Any, maxdepth: int = 8) -> Dict[str, str]:
    out: Dict[str, str] = {}
    seen = set()

    def walk(x: Any, path: str, depth: int) -> None:
        if depth > maxdepth:
            out[path] = "<depth>"
            return
        if x is None or isinstance(x, (bool, int, float, str, bytes)):
            out[path] = repr(x)
            return
        if isinstance(x, (list, tuple)):
            out[path + ".#"] = "%s[%d]" % (type(x).__name__, len(x))
            for i, y in enumerate(x):
                walk(y, "%s[%d]" % (path, i), depth + 1)
            return
        if isinstance(x, (set, frozenset)):
            out[path] = repr(sorted(map(repr, x)))
            return
        if isinstance(x, dict):
            out[path + ".#"] = "dict[%s]" % ",".join(map(repr, x.keys()))
            for k, y in x.items():
                walk(y, "%s{%r}" % (path, k), depth + 1)
            return
        mod = type(x).__module__ or ""
        if callable(x) and not mod.startswith("pandera"):
            out[path] = "<fn %s>" % getattr(x, "__qualname__", type(x).__name__)
            return
        if mod.startswith(("pandas", "numpy", "polars")):
            out[path] = "<%s %s>" % (type(x).__name__, repr(x)[:80])
            return
        if mod.startswith("pandera") and hasattr(x, "__dict__"):
            if id(x) in seen:
                out[path] = "<cycle %s>" % type(x).__name__
                return
            seen.add(id(x))
            out[path + ".#"] = type(x).__name__
            for k, y in sorted(vars(x).items()):
                if k in SKIP_ATTRS:
                    continue
                walk(y, path + "." + k, depth + 1)
            return
        out[path] = "<%s %s>" % (type(x).__name__, repr(x)[:80])

    walk(obj, "$", 0)
    return out


def diff(a: Dict[str, str], b: Dict[str, str]):
    keys = sorted(set(a) | set(b))
    return [(k, a.get(k), b.get(k)) for k in keys if a.get(k) != b.get(k)]
