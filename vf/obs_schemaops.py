"""Replay schema transformation sequences (SchemaOps.tla) on real schemas and mirrored frames (C15)."""
from __future__ import annotations

import warnings
from typing import Any, Dict, List

from . import conc, proj
from .fingerprint import diff, fingerprint


def project(schema) -> Dict[str, Any]:
    import pandera as pa

    cols = [proj.component(c, key=k) for k, c in schema.columns.items()]
    ix = schema.index
    if ix is None:
        levels = []
    elif isinstance(ix, pa.MultiIndex):
        levels = [proj.component(l, column=False) for l in ix.indexes]
    else:
        levels = [proj.component(ix, column=False)]
    return {"cols": cols, "index": levels, "ordered": bool(schema.ordered)}


def good_frame(s: Dict[str, Any]):
    """a frame the initial schema accepts"""
    import pandas as pd

    data = {}
    for c in s["cols"]:
        data[conc.val(c["key"])] = {"int64": [1, 2], "float64": [0.5, 1.5], "str": ["a", "ab"]}[c["dtype"]]
    df = pd.DataFrame(data)
    if len(s["index"]) == 1:
        df.index = pd.Index([0, 1], name=conc.val(s["index"][0]["key"]))
    return df


def mirror(df, op, had_index=True):
    """the dataframe operation a schema operation mirrors"""
    import pandas as pd

    name = op["op"]
    if name == "add_columns":
        for c in op["cols"]:
            k = conc.val(c["key"])
            df = df.copy()
            df[k] = {"int64": [0, 1], "float64": [0.5, 1.5], "str": ["a", "ab"]}[c["dtype"]]
        return df
    if name == "remove_columns":
        return df.drop(columns=[conc.val(k) for k in op["keys"]])
    if name == "select_columns":
        return df[[conc.val(k) for k in op["keys"]]]
    if name == "rename_columns":
        return df.rename(columns={conc.val(a): conc.val(b) for a, b in op["map"]})
    if name in ("update_column", "update_columns"):
        return df
    if name == "set_index":
        # a schema without an index describes frames whose (default) index is not part of the contract
        return df.set_index([conc.val(k) for k in op["keys"]], drop=bool(op["drop"]), append=bool(op["append"]) and had_index)
    if name == "reset_index":
        lv = [conc.val(k) for k in op["keys"]] or None
        return df.reset_index(level=lv, drop=bool(op["drop"]))
    raise ValueError(name)


def apply(schema, op):
    import pandera as pa

    name = op["op"]
    if name == "add_columns":
        return schema.add_columns({conc.val(c["key"]): conc.full_column(c, pa) for c in op["cols"]})
    if name == "remove_columns":
        return schema.remove_columns([conc.val(k) for k in op["keys"]])
    if name == "select_columns":
        return schema.select_columns([conc.val(k) for k in op["keys"]])
    if name == "rename_columns":
        return schema.rename_columns({conc.val(a): conc.val(b) for a, b in op["map"]})
    if name == "update_column":
        k, attr, v = op["upd"]
        return schema.update_column(conc.val(k), **{attr: v})
    if name == "update_columns":
        k, attr, v = op["upd"]
        return schema.update_columns({conc.val(k): {attr: v}})
    if name == "set_index":
        return schema.set_index([conc.val(k) for k in op["keys"]], drop=bool(op["drop"]), append=bool(op["append"]))
    if name == "reset_index":
        lv = [conc.val(k) for k in op["keys"]] or None
        return schema.reset_index(level=lv, drop=bool(op["drop"]))
    raise ValueError(name)


def observe_schemaops(vec: Dict[str, Any]) -> Dict[str, Any]:
    import pandera as pa

    with warnings.catch_warnings():
        warnings.simplefilter("ignore")
        schema = conc.ops_schema(vec["init"])
        df = good_frame(vec["init"])
        out: List[Dict[str, Any]] = []
        probe_ok = True
        init_ok = True
        try:
            schema.validate(df, lazy=True)
        except Exception:  # noqa: BLE001
            init_ok = False
        for op in vec["hist"]:
            before = fingerprint(schema)
            rec: Dict[str, Any] = {}
            try:
                new = apply(schema, op)
                rec["schema"] = project(new)
                rec["receiver_unchanged"] = not diff(before, fingerprint(schema)) and new is not schema
                try:
                    df = mirror(df, op, had_index=schema.index is not None)
                except Exception as e:  # noqa: BLE001 - the mirrored frame operation is not applicable
                    probe_ok = False
                schema = new
            except pa.errors.SchemaInitError:
                rec["error"] = "SchemaInitError"
                rec["receiver_unchanged"] = not diff(before, fingerprint(schema))
            except ValueError:
                rec["error"] = "ValueError"
                rec["receiver_unchanged"] = not diff(before, fingerprint(schema))
            except Exception as e:  # noqa: BLE001
                rec["error"] = "Leak:" + type(e).__name__
                rec["receiver_unchanged"] = not diff(before, fingerprint(schema))
            out.append(rec)
        verdict = None
        if probe_ok and init_ok:
            try:
                schema.validate(df, lazy=True)
                verdict = "ok"
            except (pa.errors.SchemaErrors, pa.errors.SchemaError) as e:
                verdict = "rejects: " + ",".join(sorted({x.reason_code.name for x in getattr(e, "schema_errors", [e])}))
            except Exception as e:  # noqa: BLE001
                verdict = "Leak:" + type(e).__name__
        return {"steps": out, "mirror_verdict": verdict, "init_ok": init_ok}
