"""Process pool that replays vectors into the real code (imported from /repo)."""
from __future__ import annotations

import importlib
import multiprocessing as mp
import os
import sys
import traceback
from typing import Any, Callable, Dict, List, Tuple

NPROC = int(os.environ.get("VERIF_NPROC", "16"))

_STATE: Dict[str, Any] = {}


def _init(header, modname, fnname, env, unset=()):
    for k in unset:
        os.environ.pop(k, None)
    os.environ.update(env)
    if "pandera" in sys.modules and (env or unset):
        raise RuntimeError("pandera was imported before the worker environment was set")
    os.environ.setdefault("PYTHONHASHSEED", "0")
    import warnings

    warnings.filterwarnings("ignore", category=DeprecationWarning)
    warnings.filterwarnings("ignore", category=FutureWarning)
    from . import conc

    if header is not None:
        conc.set_tables(header)
    mod = importlib.import_module(modname)
    _STATE["fn"] = getattr(mod, fnname)


def _work(chunk: List[Tuple[int, Dict[str, Any]]]):
    out = []
    fn = _STATE["fn"]
    for i, v in chunk:
        try:
            out.append((i, fn(v)))
        except BaseException as exc:  # noqa: BLE001 - harness failure, reported as such
            out.append((i, {"harness_error": "%s: %s" % (type(exc).__name__, exc),
                            "tb": traceback.format_exc()[-2000:]}))
    return out


def replay(vectors: List[Dict[str, Any]], modname: str, fnname: str, header=None,
           nproc: int = NPROC, chunk: int = 64, env: Dict[str, str] | None = None,
           unset: List[str] | None = None) -> List[Dict[str, Any]]:
    """Run fn(vector) for every vector, in worker processes; returns observations in order."""
    env = env or {}
    idx = list(enumerate(vectors))
    chunks = [idx[k:k + chunk] for k in range(0, len(idx), chunk)]
    res: List[Any] = [None] * len(vectors)
    unset = unset or []
    if (nproc <= 1 or len(vectors) < 8) and not (env or unset):
        _init(header, modname, fnname, env)
        for ch in chunks:
            for i, o in _work(ch):
                res[i] = o
        return res
    ctx = mp.get_context("fork")
    with ctx.Pool(min(nproc, max(1, len(chunks))), initializer=_init,
                  initargs=(header, modname, fnname, env, unset)) as pool:
        for part in pool.imap_unordered(_work, chunks):
            for i, o in part:
                res[i] = o
    return res
