"""Replay IO.tla behaviours through the real to_yaml/from_yaml, to_json/from_json, to_script+exec (C12)."""
from __future__ import annotations

import warnings
from typing import Any, Dict, List

from .fingerprint import diff, fingerprint

TEXT = {"none": None, "plain": "T", "dq": 'say "hi"', "sq": "it's", "colon": "a: b #c"}
RTEXT = {v: k for k, v in TEXT.items()}


def pyval(v: List[Any]) -> Any:
    import pandas as pd

    t, x = v
    if t == "i":
        return int(x)
    if t == "s":
        return x
    if t == "n":
        return None
    if t == "b":
        return bool(x)
    if t == "l":
        return [pyval(e) for e in x]
    if t == "t":
        return pd.Timestamp("2020-01-01")
    if t == "d":
        return pd.Timedelta(days=x)
    raise ValueError(v)


def tag(x: Any) -> List[Any]:
    import pandas as pd

    if x is None:
        return ["n", 0]
    if isinstance(x, bool):
        return ["b", 1 if x else 0]
    if isinstance(x, int):
        return ["i", x]
    if isinstance(x, float) and x == int(x):
        return ["f", int(x)]
    if isinstance(x, str):
        return ["s", x]
    if isinstance(x, pd.Timedelta):
        return ["d", x.days] if x == pd.Timedelta(days=x.days) else ["other", str(x)]
    if isinstance(x, pd.Timestamp):
        return ["t", 0] if x == pd.Timestamp("2020-01-01") else ["other", str(x)]
    if isinstance(x, (list, tuple, set, frozenset)):
        return ["l", sorted((tag(e) for e in x), key=repr)]
    return ["other", repr(x)]


def norm_tagged(v: List[Any]) -> List[Any]:
    if v[0] == "l":
        return ["l", sorted((norm_tagged(e) for e in v[1]), key=repr)]
    return [v[0], v[1]]


def mk_check(c: Dict[str, Any], pa):
    kw = {name: pyval(val) for name, val in c["st"]}
    return getattr(pa.Check, c["k"])(**kw, ignore_na=bool(c["ina"]), n_failure_cases=(c["nfc"] or None),
                                     raise_warning=bool(c["warn"]))


def dt(name: str):
    return None if name == "none" else name


# column keys that are not strings (IO.tla "#0", "#t")
KEYS = {"#0": 0, "#t": ("x", "a")}
RKEYS = {repr(v): k for k, v in KEYS.items()}


def pykey(k):
    return KEYS.get(k, k)


def abskey(k):
    return RKEYS.get(repr(k), k if isinstance(k, str) else "other:%r" % (k,))


def build(s: Dict[str, Any]):
    import pandera as pa

    cols = {}
    for c in s["cols"]:
        cols[pykey(c["key"])] = pa.Column(dt(c["dtype"]), checks=[mk_check(x, pa) for x in c["checks"]], nullable=bool(c["nullable"]),
                                   unique=bool(c["unique"]), coerce=bool(c["coerce"]), required=bool(c["required"]),
                                   regex=bool(c["regex"]), title=TEXT[c["title"]], description=TEXT[c["desc"]])
    levels = [pa.Index(dt(l["dtype"]), checks=[mk_check(x, pa) for x in l["checks"]], nullable=bool(l["nullable"]),
                       unique=bool(l["unique"]), coerce=bool(l["coerce"]), name=(None if l["name"] == "none" else l["name"]),
                       title=TEXT[l["title"]], description=TEXT[l["desc"]]) for l in s["index"]]
    index = None if not levels else levels[0] if len(levels) == 1 else pa.MultiIndex(levels)
    return pa.DataFrameSchema(cols, checks=[mk_check(x, pa) for x in s["checks"]], index=index, dtype=dt(s["dtype"]),
                              coerce=bool(s["coerce"]), strict={"F": False, "T": True, "filter": "filter"}[s["strict"]],
                              name=TEXT[s["name"]], ordered=bool(s["ordered"]), unique=([pykey(x) for x in s["unique"]] or None),
                              report_duplicates=s["report"], unique_column_names=bool(s["ucn"]),
                              add_missing_columns=bool(s["amc"]), title=TEXT[s["title"]], description=TEXT[s["desc"]])


def p_text(x: Any) -> str:
    return RTEXT.get(x, "other:%r" % (x,))


def p_check(c) -> Dict[str, Any]:
    if not hasattr(c, "statistics"):
        return {"k": "not-a-check:%r" % (c,), "st": [], "ina": True, "nfc": 0, "warn": False}
    st = c.statistics or {}
    return {"k": c.name, "st": [[k, tag(v)] for k, v in st.items() if k != "options"], "ina": bool(c.ignore_na),
            "nfc": int(c.n_failure_cases or 0), "warn": bool(c.raise_warning), "extra_options_key": "options" in st}


def p_dtype(d) -> str:
    return "none" if d is None else str(d)


def p_comp(c, key=None) -> Dict[str, Any]:
    rec = {"dtype": p_dtype(c.dtype), "nullable": bool(c.nullable), "unique": bool(c.unique), "coerce": bool(c.coerce),
           "title": p_text(c.title), "desc": p_text(c.description), "checks": [p_check(x) for x in c.checks]}
    if key is not None:
        rec.update({"key": abskey(key), "required": bool(c.required), "regex": bool(c.regex)})
    else:
        rec["name"] = "none" if c.name is None else c.name
    return rec


def project(schema) -> Dict[str, Any]:
    import pandera as pa

    ix = schema.index
    levels = [] if ix is None else [p_comp(l) for l in ix.indexes] if isinstance(ix, pa.MultiIndex) else [p_comp(ix)]
    strict = {False: "F", True: "T", "filter": "filter"}.get(schema.strict, "other:%r" % (schema.strict,))
    return {"cols": [p_comp(c, key=k) for k, c in schema.columns.items()], "index": levels,
            "checks": [p_check(x) for x in schema.checks], "dtype": p_dtype(schema.dtype), "coerce": bool(schema.coerce),
            "strict": strict, "name": p_text(schema.name), "ordered": bool(schema.ordered),
            "unique": [abskey(x) for x in (schema.unique or [])], "report": schema.report_duplicates, "ucn": bool(schema.unique_column_names),
            "amc": bool(schema.add_missing_columns), "title": p_text(schema.title), "desc": p_text(schema.description)}


def frames(s: Dict[str, Any]):
    """a fixed bank of probe frames (keys taken from the schema); no semantics, only variety"""
    import pandas as pd

    ka = pykey(s["cols"][0]["key"])
    kb = "b" if ka != "b" else "a"
    out = [pd.DataFrame({ka: [1, 2], kb: ["x", "y"]}), pd.DataFrame({ka: [0, 7], kb: ["a", "ab"]}),
           pd.DataFrame({ka: [1, 1], kb: ["b", "b"]}), pd.DataFrame({ka: [None, 1.0], kb: ["a", None]}),
           pd.DataFrame({ka: [1, 2]}), pd.DataFrame({ka: [1, 2], kb: ["x", "y"], "z": [0, 0]}),
           pd.DataFrame({kb: ["x", "y"], ka: [1, 2]}), pd.DataFrame({ka: ["1", "2"], kb: ["abcd", "a"]}),
           pd.DataFrame({ka: [-1, 10], kb: ["ba", "ab"]}),
           pd.DataFrame({ka: pd.to_datetime(["2019-01-01", "2021-01-01"]), kb: ["x", "y"]}),
           pd.DataFrame({ka: [1.5, 2.0], kb: [1, 2]}), pd.DataFrame({ka: [True, False], kb: ["x", "x"]})]
    named = []
    for df in out[:3]:
        d1 = df.copy()
        d1.index = pd.Index([0, 1], name="i")
        d2 = df.copy()
        d2.index = pd.Index([0, 0], name="i")
        d3 = df.copy()
        d3.index = pd.MultiIndex.from_arrays([[0, 1], ["p", "p"]], names=["i", "j"])
        d4 = df.copy()
        d4.index = pd.MultiIndex.from_arrays([[0, 0], ["p", "p"]], names=["i", "j"])
        named += [d1, d2, d3, d4]
    return out + named


def verdict(schema, df) -> str:
    import pandera as pa

    try:
        with warnings.catch_warnings(record=True) as w:
            warnings.simplefilter("always")
            out = schema.validate(df.copy(), lazy=True)
        uw = sorted({str(x.message)[:40] for x in w if issubclass(x.category, UserWarning)})
        return "ok|%s|%s|%s" % (list(out.columns), [str(t) for t in out.dtypes], uw)
    except pa.errors.SchemaErrors as e:
        return "errors|" + ",".join(sorted("%s:%s" % (x.reason_code.name, getattr(x.check, "name", x.check) if not isinstance(x.check, str) else x.check)
                                           for x in e.schema_errors))
    except pa.errors.SchemaError as e:
        return "error|" + e.reason_code.name
    except Exception as e:  # noqa: BLE001
        return "raise|" + type(e).__name__


def observe_io(vec: Dict[str, Any]) -> Dict[str, Any]:
    from pandera.io import from_json, from_yaml, to_json, to_script, to_yaml

    fmt = vec["fmt"]
    out: Dict[str, Any] = {}
    with warnings.catch_warnings():
        warnings.simplefilter("ignore")
        schema = build(vec["schema"])
        before = fingerprint(schema)
        try:
            if fmt == "yaml":
                text = to_yaml(schema)
            elif fmt == "json":
                text = to_json(schema)
            else:
                text = to_script(schema)
        except Exception as e:  # noqa: BLE001
            out["error"] = "write:%s" % type(e).__name__
            out["detail"] = str(e)[:160]
            out["pure"] = not diff(before, fingerprint(schema))
            return out
        out["pure"] = not diff(before, fingerprint(schema))
        try:
            if fmt == "yaml":
                back = from_yaml(text)
            elif fmt == "json":
                back = from_json(text)
            else:
                ns: Dict[str, Any] = {}
                exec(text, ns)  # noqa: S102 - the generated script is the artefact under test
                back = ns["schema"]
        except Exception as e:  # noqa: BLE001
            out["error"] = "read:%s" % type(e).__name__
            out["detail"] = str(e)[:160]
            out["text"] = text[:600]
            return out
        out["reread"] = project(back)
        out["original"] = project(schema)
        out["eq"] = bool(back == schema)
        try:
            text2 = to_yaml(back) if fmt == "yaml" else to_json(back) if fmt == "json" else to_script(back)
            out["fix"] = text2 == text
        except Exception as e:  # noqa: BLE001
            out["fix"] = False
            out["detail"] = "rewrite:%s" % type(e).__name__
        diffs = []
        for i, df in enumerate(frames(vec["schema"])):
            a, b = verdict(schema, df), verdict(back, df)
            if a != b:
                diffs.append([i, a, b])
        out["verdict_diffs"] = diffs[:3]
        out["probes"] = len(frames(vec["schema"]))
    return out
