"""Recorder for config_context linearization points + seeded random driver (code -> spec).

Run as a module in a fresh interpreter:  python -m vf.rec_config <out.json> <seed> <ntraces> [pytest paths...]
Harness-side instrumentation only (active because this process installs it; PANDERA_VERIF=1).
"""
from __future__ import annotations

import json
import random
import sys
from contextlib import contextmanager
from typing import Any, Dict, List

EVENTS: List[Dict[str, Any]] = []


def _cfg(c) -> Dict[str, Any]:
    d = c.validation_depth
    return {"enabled": bool(c.validation_enabled), "depth": "None" if d is None else d.name,
            "cache": bool(c.cache_dataframe), "keep": bool(c.keep_cached_dataframe)}


def _now():
    import pandera.config as cfg

    return _cfg(cfg.get_config_context(validation_depth_default=None))


def _opt(v):
    if v is None:
        return "None"
    if isinstance(v, bool):
        return "T" if v else "F"
    return v.name


def install() -> None:
    import pandera.config as cfg
    import pandera.polars  # noqa: F401 - make sure the polars API modules are loaded
    from pandera.api.polars import container as pc

    orig = cfg.config_context

    orig_reset = cfg.reset_config_context
    nest = {"n": 0}

    def traced_reset(conf=None):
        orig_reset(conf)
        if nest["n"] == 0:      # a direct call by user code, not the restore inside config_context
            EVENTS.append({"ev": "reset", "ctx": _now(), "global": _cfg(cfg.get_config_global())})

    cfg.reset_config_context = traced_reset

    @contextmanager
    def traced(validation_enabled=None, validation_depth=None, cache_dataframe=None, keep_cached_dataframe=None):
        cm = orig(validation_enabled=validation_enabled, validation_depth=validation_depth,
                  cache_dataframe=cache_dataframe, keep_cached_dataframe=keep_cached_dataframe)
        cm.__enter__()
        EVENTS.append({"ev": "enter", "global": _cfg(cfg.get_config_global()),
                       "opts": {"enabled": _opt(validation_enabled), "depth": _opt(validation_depth),
                                "cache": _opt(cache_dataframe), "keep": _opt(keep_cached_dataframe)},
                       "ctx": _now()})
        try:
            yield
        except BaseException as e:  # noqa: BLE001
            nest["n"] += 1
            try:
                swallow = cm.__exit__(type(e), e, e.__traceback__)
            finally:
                nest["n"] -= 1
            EVENTS.append({"ev": "exit", "exc": True, "ctx": _now(), "global": _cfg(cfg.get_config_global())})
            if not swallow:
                raise
        else:
            nest["n"] += 1
            try:
                cm.__exit__(None, None, None)
            finally:
                nest["n"] -= 1
            EVENTS.append({"ev": "exit", "exc": False, "ctx": _now(), "global": _cfg(cfg.get_config_global())})

    for mod in list(sys.modules.values()):
        if mod is None or not getattr(mod, "__name__", "").startswith("pandera"):
            continue
        if getattr(mod, "config_context", None) is orig:
            setattr(mod, "config_context", traced)
        if getattr(mod, "reset_config_context", None) is orig_reset:
            setattr(mod, "reset_config_context", traced_reset)

    orig_validate = pc.DataFrameSchema.validate

    def validate(self, check_obj, *a, **kw):
        import polars as pl

        EVENTS.append({"ev": "pv", "kind": "lazyframe" if isinstance(check_obj, pl.LazyFrame) else "dataframe",
                       "global": _cfg(cfg.get_config_global())})
        return orig_validate(self, check_obj, *a, **kw)

    pc.DataFrameSchema.validate = validate


def start_trace() -> None:
    import pandera.config as cfg

    EVENTS.clear()
    EVENTS.append({"ev": "init", "global": _cfg(cfg.get_config_global()), "ctx": _now()})


class _Boom(Exception):
    pass


def random_program(rng: random.Random, depth: int = 0) -> None:
    """a seeded random nest of config_context blocks, validations and exceptions"""
    import pandas as pd
    import polars as pl
    import pandera as pa
    import pandera.polars as pap
    from pandera.config import ValidationDepth, config_context
    from pandera.errors import SchemaError, SchemaErrors

    n = rng.randint(1, 4)
    for _ in range(n):
        r = rng.random()
        if r < 0.45 and depth < 5:
            kw = {}
            if rng.random() < 0.5:
                kw["validation_depth"] = rng.choice(list(ValidationDepth))
            if rng.random() < 0.3:
                kw["validation_enabled"] = rng.random() < 0.6
            if rng.random() < 0.2:
                kw["cache_dataframe"] = rng.random() < 0.5
            if rng.random() < 0.2:
                kw["keep_cached_dataframe"] = rng.random() < 0.5
            try:
                with config_context(**kw):
                    random_program(rng, depth + 1)
                    if rng.random() < 0.3:
                        raise _Boom()
            except _Boom:
                pass
        elif r < 0.85:
            schema = pap.DataFrameSchema({"a": pap.Column(pl.Int64, pa.Check.gt(0))},
                                         strict=rng.random() < 0.3)
            df = rng.choice([pl.DataFrame({"a": [1, -1]}), pl.DataFrame({"a": [1.0, 2.0]}),
                             pl.DataFrame({"a": [1, 2]}), pl.DataFrame({"a": [1, 2], "b": [1, 2]})])
            obj = df.lazy() if rng.random() < 0.5 else df
            try:
                schema.validate(obj, lazy=rng.random() < 0.5)
            except (SchemaError, SchemaErrors):
                pass
        else:
            try:
                pa.DataFrameSchema({"a": pa.Column(int, pa.Check.gt(0))}).validate(pd.DataFrame({"a": [1, -1]}))
            except (SchemaError, SchemaErrors):
                pass


def main(argv) -> int:
    out, seed, n = argv[0], int(argv[1]), int(argv[2])
    install()
    import pandera.config as cfg

    traces = []
    rng = random.Random(seed)
    for _ in range(n):
        cfg.reset_config_context()
        start_trace()
        random_program(rng)
        traces.append(list(EVENTS))
    if len(argv) > 3:
        # traces of the repository's own tests: one trace per test (recorded by a pytest plugin hook)
        import pytest

        class Plugin:
            def pytest_runtest_call(self, item):
                start_trace()

            def pytest_runtest_teardown(self, item):
                if len(EVENTS) > 1:
                    traces.append(list(EVENTS))

        pytest.main(["-q", "-p", "no:cacheprovider", "-x", "--no-header", "-o", "log_cli=false"] + argv[3:], plugins=[Plugin()])
    with open(out, "w") as fh:
        json.dump(traces, fh)
    print("recorded %d traces, %d events" % (len(traces), sum(len(t) for t in traces)))
    return 0


if __name__ == "__main__":
    sys.exit(main(sys.argv[1:]))
