"""Comparators: equality of abstract JSON on the observables a property names.

Nothing here knows what validation *means*; predictions come from TLC.
"""
from __future__ import annotations

from collections import Counter
from typing import Any, Dict, List, Optional

from .proj import norm


def ncase(c: List[Any]):
    """failure case [label, value(, column)] -> hashable normal form"""
    return tuple(norm(x) for x in c)


def nerr(e: Dict[str, Any], with_sval: bool = True, col: bool = False):
    cases = e["cases"]
    if not col:
        cases = [c[:2] for c in cases]
    key = (e["reason"], e["ci"], bool(e["scalar"]), tuple(sorted(map(repr, map(ncase, cases)))))
    if with_sval and e.get("sval"):
        key = key + (e["sval"],)
    return key


def errs_equal(expected: List[Dict[str, Any]], observed: List[Dict[str, Any]], col: bool = False) -> Optional[str]:
    """multiset equality of error records; sval compared only where the spec gives one"""
    exp = Counter()
    for e in expected:
        exp[nerr(e, with_sval=True, col=col)] += 1
    obs_full = Counter()
    for o in observed:
        # align sval: drop it when the matching expectation does not constrain it
        k_with = nerr(o, with_sval=True, col=col)
        k_wo = nerr(o, with_sval=False, col=col)
        if exp.get(k_with, 0) > obs_full.get(k_with, 0):
            obs_full[k_with] += 1
        else:
            obs_full[k_wo] += 1
    if exp == obs_full:
        return None
    miss = exp - obs_full
    extra = obs_full - exp
    return "errors differ: missing=%s extra=%s" % (list(miss.elements())[:3], list(extra.elements())[:3])


def err_in(err: Dict[str, Any], errs: List[Dict[str, Any]]) -> bool:
    k = nerr(err, with_sval=False)
    return any(nerr(e, with_sval=False) == k for e in errs)


def fields_equal(a: Dict[str, Any], b: Dict[str, Any]) -> Optional[str]:
    """exact equality of two abstract fields (dtype, name, cells, index)"""
    if a["pd"] != b["pd"]:
        return "dtype %s != %s" % (a["pd"], b["pd"])
    if a["name"] != b["name"]:
        return "name %s != %s" % (a["name"], b["name"])
    if [norm(x) for x in a["cells"]] != [norm(x) for x in b["cells"]]:
        return "cells %s != %s" % (a["cells"], b["cells"])
    if [norm(x) for x in a["idx"]] != [norm(x) for x in b["idx"]]:
        return "index %s != %s" % (a["idx"], b["idx"])
    if "idxpd" in a and "idxpd" in b and a["idxpd"] != b["idxpd"]:
        return "index dtype %s != %s" % (a["idxpd"], b["idxpd"])
    return None


def frames_equal(a: Dict[str, Any], b: Dict[str, Any], dtypes: bool = True) -> Optional[str]:
    if [norm(x) for x in a["idx"]] != [norm(x) for x in b["idx"]]:
        return "index %s != %s" % (a["idx"], b["idx"])
    if dtypes and "idxpd" in a and "idxpd" in b and a["idxpd"] != b["idxpd"]:
        return "index dtype %s != %s" % (a["idxpd"], b["idxpd"])
    if len(a["cols"]) != len(b["cols"]):
        return "columns %s != %s" % ([c["name"] for c in a["cols"]], [c["name"] for c in b["cols"]])
    for ca, cb in zip(a["cols"], b["cols"]):
        if ca["name"] != cb["name"]:
            return "column label %s != %s" % (ca["name"], cb["name"])
        if dtypes and ca["pd"] != cb["pd"]:
            return "column %s dtype %s != %s" % (ca["name"], ca["pd"], cb["pd"])
        if [norm(x) for x in ca["cells"]] != [norm(x) for x in cb["cells"]]:
            return "column %s cells %s != %s" % (ca["name"], ca["cells"], cb["cells"])
    return None
