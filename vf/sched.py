"""Deterministic thread scheduler for C07 (harness-side instrumentation, PANDERA_VERIF=1).

Threads are run one at a time.  Every access to the shared state - attributes coerce/dtype of the
registered schema components, and pandera's context configuration - is a scheduling point: the thread
records the access and the scheduler decides, from the schedule, which thread runs next.  A schedule is
(first thread, sorted list of global access counts at which to switch to the next runnable thread):
bounded-preemption exploration.  Run as a module in a fresh interpreter:

    python -m vf.sched <out.json> <seed> <tier>
"""
from __future__ import annotations

import json
import random
import sys
import threading
from typing import Any, Callable, Dict, List, Optional, Tuple

TRACKED = ("coerce", "dtype")


class Scheduler:
    def __init__(self, names: List[str], first: int, switch_at: List[int]):
        self.names = names
        self.cv = threading.Condition()
        self.current = first
        self.alive = [True] * len(names)
        self.switch_at = set(switch_at)
        self.count = 0
        self.events: List[Dict[str, Any]] = []
        self.tl = threading.local()
        self.active = False

    def me(self) -> Optional[int]:
        return getattr(self.tl, "idx", None)

    def _next_alive(self, i: int) -> int:
        n = len(self.names)
        for d in range(1, n + 1):
            j = (i + d) % n
            if self.alive[j]:
                return j
        return i

    def point(self, ev: Dict[str, Any]) -> None:
        """called by a worker thread at every shared access, BEFORE the access is recorded as done"""
        i = self.me()
        if i is None or not self.active:
            return
        with self.cv:
            while self.current != i:
                self.cv.wait()
            ev["th"] = self.names[i]
            self.events.append(ev)
            self.count += 1
            if self.count in self.switch_at:
                self.current = self._next_alive(i)
                self.cv.notify_all()
                while self.current != i:
                    self.cv.wait()

    def run(self, jobs: List[Callable[[], Any]]) -> List[Any]:
        results: List[Any] = [None] * len(jobs)

        def worker(i: int):
            self.tl.idx = i
            with self.cv:
                while self.current != i:
                    self.cv.wait()
            try:
                results[i] = ("ok", jobs[i]())
            except BaseException as exc:  # noqa: BLE001
                results[i] = ("exc", exc)
            finally:
                with self.cv:
                    self.alive[i] = False
                    if self.current == i:
                        self.current = self._next_alive(i)
                    self.cv.notify_all()

        self.active = True
        ths = [threading.Thread(target=worker, args=(i,), daemon=True) for i in range(len(jobs))]
        for t in ths:
            t.start()
        for t in ths:
            t.join(60)
        self.active = False
        if any(t.is_alive() for t in ths):
            raise RuntimeError("scheduler deadlock")
        return results


SCHED: Optional[Scheduler] = None
REGISTERED: Dict[int, Dict[str, int]] = {}     # id(obj) -> {attr: loc}


def _val(v: Any) -> str:
    return repr(v) if not hasattr(v, "validation_depth") else _cfg(v)


def _cfg(c) -> str:
    d = c.validation_depth
    return "cfg(%s,%s,%s,%s)" % (c.validation_enabled, None if d is None else d.name, c.cache_dataframe, c.keep_cached_dataframe)


def install_hooks() -> None:
    import pandera.api.pandas.components as comps
    import pandera.config as cfg
    import pandera.polars  # noqa: F401

    for cls in (comps.Column, comps.Index):
        def traced_get(self, name, _cls=cls):
            v = object.__getattribute__(self, name)
            if name in TRACKED and SCHED is not None and SCHED.active:
                locs = REGISTERED.get(id(self))
                if locs is not None and SCHED.me() is not None:
                    # the access happens while this thread holds the turn; the switch (if any) comes after it,
                    # and the value handed to the caller is the one that was read and logged
                    SCHED.point({"ev": "read", "loc": locs[name], "val": _val(v), "fn": sys._getframe(1).f_code.co_name})
            return v

        def traced_set(self, name, value, _cls=cls):
            if name in TRACKED and SCHED is not None and SCHED.active:
                locs = REGISTERED.get(id(self))
                if locs is not None and SCHED.me() is not None:
                    object.__setattr__(self, name, value)
                    newv = object.__getattribute__(self, name)
                    SCHED.point({"ev": "write", "loc": locs[name], "val": _val(newv), "fn": sys._getframe(1).f_code.co_name})
                    return
            object.__setattr__(self, name, value)

        cls.__getattribute__ = traced_get
        cls.__setattr__ = traced_set

    # the context configuration: one cell; enter / exit / reads are scheduling points
    orig_ctx = cfg.config_context
    orig_get = cfg.get_config_context
    from contextlib import contextmanager

    def traced_get_ctx(validation_depth_default=cfg.ValidationDepth.SCHEMA_AND_DATA):
        if SCHED is not None and SCHED.active and SCHED.me() is not None and CFGLOC[0]:
            v = orig_get(validation_depth_default=validation_depth_default)
            SCHED.point({"ev": "read", "loc": CFGLOC[0], "val": _cfg(orig_get(validation_depth_default=None)),
                         "fn": sys._getframe(1).f_code.co_name})
            return v
        return orig_get(validation_depth_default=validation_depth_default)

    @contextmanager
    def traced_ctx(**kw):
        cm = orig_ctx(**kw)
        if SCHED is not None and SCHED.active and SCHED.me() is not None and CFGLOC[0]:
            # config_context first READS the outer configuration (a traced read with fn=config_context:
            # a scheduling point of its own) and then overrides it: two separate steps
            cm.__enter__()
            SCHED.point({"ev": "cfg_enter", "loc": CFGLOC[0],
                         "val": _cfg(orig_get(validation_depth_default=None)), "fn": "config_context"})
            try:
                yield
            except BaseException as e:  # noqa: BLE001
                cm.__exit__(type(e), e, e.__traceback__)
                SCHED.point({"ev": "cfg_exit", "loc": CFGLOC[0], "val": _cfg(orig_get(validation_depth_default=None)),
                             "fn": "config_context"})
                raise
            else:
                cm.__exit__(None, None, None)
                SCHED.point({"ev": "cfg_exit", "loc": CFGLOC[0], "val": _cfg(orig_get(validation_depth_default=None)),
                             "fn": "config_context"})
        else:
            with cm:
                yield

    for mod in list(sys.modules.values()):
        if mod is None or not getattr(mod, "__name__", "").startswith("pandera"):
            continue
        if getattr(mod, "config_context", None) is orig_ctx:
            setattr(mod, "config_context", traced_ctx)
        if getattr(mod, "get_config_context", None) is orig_get:
            setattr(mod, "get_config_context", traced_get_ctx)


CFGLOC = [0]


def register(schemas: List[Any], with_cfg: bool) -> Dict[str, Any]:
    """assign memory cells to the attributes of every component of the given schema objects"""
    import pandera.config as cfg

    REGISTERED.clear()
    mem: List[str] = []
    override: List[str] = []
    owners: List[List[int]] = []
    by_id: Dict[Tuple[int, str], int] = {}
    for si, schema in enumerate(schemas):
        comps = list(getattr(schema, "columns", {}).values())
        if getattr(schema, "index", None) is not None:
            comps.append(schema.index)
        for c in comps:
            for attr in TRACKED:
                key = (id(c), attr)
                if key not in by_id:
                    mem.append(_val(object.__getattribute__(c, attr)))
                    if attr == "coerce":
                        override.append("False")
                    else:
                        fd = getattr(schema, "dtype", None)
                        override.append(_val(fd) if fd is not None else "<no override>")
                    owners.append([])
                    by_id[key] = len(mem)
                    REGISTERED.setdefault(id(c), {})[attr] = len(mem)
                owners[by_id[key] - 1].append(si)
    CFGLOC[0] = 0
    if with_cfg:
        mem.append(_cfg(cfg.get_config_context(validation_depth_default=None)))
        override.append("<cfg>")
        owners.append([])
        CFGLOC[0] = len(mem)
    return {"ev": "init", "mem": mem, "override": override, "owners": owners, "cfgloc": CFGLOC[0]}


# --------------------------------------------------------------------------------------------
# jobs
# --------------------------------------------------------------------------------------------

def outcome(res) -> str:
    kind, v = res
    if kind == "ok":
        import pandas as pd

        if isinstance(v, pd.DataFrame):
            return "ok:" + ",".join(str(t) for t in v.dtypes) + ":" + repr(v.values.tolist())
        return "ok:" + type(v).__name__
    rc = getattr(v, "reason_code", None)
    return "exc:%s:%s" % (type(v).__name__, getattr(rc, "name", None))


def scenarios():
    import pandas as pd
    import polars as pl
    import pandera as pa
    import pandera.polars as pap

    def pandas_schema():
        return pa.DataFrameSchema({"a": pa.Column(int, pa.Check.ge(0), coerce=True), "b": pa.Column(float)})

    coercible = lambda: pd.DataFrame({"a": ["1", "2"], "b": [1.0, 2.0]})  # noqa: E731
    failing = lambda: pd.DataFrame({"a": ["1", "-2"], "b": [1.0, 2.0]})  # noqa: E731

    def same_schema():
        s = pandas_schema()
        return [s], [lambda: s.validate(coercible()), lambda: s.validate(failing(), lazy=True)], False, "same"

    def distinct_schemas():
        s1, s2 = pandas_schema(), pandas_schema()
        return [s1, s2], [lambda: s1.validate(coercible()), lambda: s2.validate(coercible())], False, "distinct"

    def derived_schemas():
        base = pandas_schema()
        ext = pa.DataFrameSchema({**base.columns, "c": pa.Column(str, required=False)})
        return [base, ext], [lambda: base.validate(failing(), lazy=True), lambda: ext.validate(coercible())], False, "distinct"

    def frame_dtype_schema():
        s = pa.DataFrameSchema({"a": pa.Column(checks=pa.Check.ge(0)), "b": pa.Column(float)}, dtype=int)
        good = lambda: pd.DataFrame({"a": [1, 2], "b": [3, 4]})  # noqa: E731
        return [s], [lambda: s.validate(good()), lambda: s.columns["b"].validate(pd.DataFrame({"b": [1.5]}))], False, "same"

    def polars_same():
        s = pap.DataFrameSchema({"a": pap.Column(pl.Int64, pa.Check.gt(0))})
        df = pl.DataFrame({"a": [1, -1]})
        return [], [lambda: _pl(s, df), lambda: _pl(s, df.lazy())], True, "same"

    def _pl(s, obj):
        out = s.validate(obj)
        return out.collect() if isinstance(out, pl.LazyFrame) else out

    return {"pandas_same_schema": same_schema, "pandas_distinct_schemas": distinct_schemas,
            "pandas_derived_schemas": derived_schemas, "pandas_frame_dtype": frame_dtype_schema,
            "polars_same_schema": polars_same}


def run_once(make, first: int, switch_at: List[int]):
    global SCHED
    import pandera.config as cfg

    cfg.reset_config_context()
    schemas, jobs, with_cfg, relation = make()
    hdr = register(schemas, with_cfg)
    SCHED = Scheduler(["A", "B", "C"][: len(jobs)], first, switch_at)
    res = SCHED.run(jobs)
    events = [hdr] + SCHED.events
    n = SCHED.count
    SCHED = None
    return [outcome(r) for r in res], events, n, relation


def solo(make):
    """each job alone (fresh objects): the outcome the property compares with"""
    outs = []
    k = len(make()[1])
    for i in range(k):
        schemas, jobs, with_cfg, _rel = make()
        try:
            outs.append(outcome(("ok", jobs[i]())))
        except BaseException as exc:  # noqa: BLE001
            outs.append(outcome(("exc", exc)))
    return outs


def schedules(n_a: int, total: int, tier: str, rng: random.Random) -> List[Tuple[int, List[int]]]:
    """bounded-preemption schedules: <=2 switches at every pair of access counts (strided in the quick tier)"""
    out: List[Tuple[int, List[int]]] = [(0, []), (1, [])]
    pts = list(range(1, total + 1))
    stride = 1 if tier == "thorough" else max(1, total // 14)
    sel = pts[::stride]
    for first in (0, 1):
        for i in sel:
            out.append((first, [i]))
            for j in sel:
                if j > i:
                    out.append((first, [i, j]))
    if tier == "thorough":
        for _ in range(300):
            k = rng.randint(3, 6)
            out.append((rng.randint(0, 1), sorted(rng.sample(pts, min(k, len(pts))))))
    return out


# --------------------------------------------------------------------------------------------
# cold start: the lazily filled BACKEND_REGISTRY dictionaries (first validation of the process)
# --------------------------------------------------------------------------------------------

class TracedRegistry(dict):
    """a BACKEND_REGISTRY whose accesses are scheduling points"""

    def __init__(self, name: str, base: Dict[Any, Any]):
        super().__init__(base)
        self.rname = name

    def _key(self, k) -> str:
        try:
            return "%s:%s/%s.%s" % (self.rname, k[0].__name__, k[1].__module__.split(".")[0], k[1].__name__)
        except Exception:  # noqa: BLE001
            return "%s:%r" % (self.rname, k)

    def _point(self, ev: str, k, hit) -> None:
        if SCHED is not None and SCHED.active and SCHED.me() is not None:
            SCHED.point({"ev": ev, "key": self._key(k), "hit": bool(hit), "fn": sys._getframe(2).f_code.co_name})

    def __getitem__(self, k):
        hit = dict.__contains__(self, k)
        self._point("reg_read", k, hit)
        return dict.__getitem__(self, k)

    def __contains__(self, k):
        hit = dict.__contains__(self, k)
        self._point("reg_probe", k, hit)
        return hit

    def __setitem__(self, k, v):
        dict.__setitem__(self, k, v)
        self._point("reg_write", k, True)


def install_registries() -> None:
    from pandera.api.base.checks import BaseCheck
    from pandera.api.base.parsers import BaseParser
    from pandera.api.base.schema import BaseSchema

    for cls, name in ((BaseSchema, "schema"), (BaseCheck, "check"), (BaseParser, "parser")):
        cls.BACKEND_REGISTRY = TracedRegistry(name, cls.BACKEND_REGISTRY)


def cold_scenarios():
    import pandas as pd
    import pandera as pa

    def two_frames():
        s1 = pa.DataFrameSchema({"a": pa.Column(int, pa.Check.ge(0))})
        s2 = pa.DataFrameSchema({"a": pa.Column(int, pa.Check.ge(0))})
        df = lambda: pd.DataFrame({"a": [1, 2]})  # noqa: E731
        return [lambda: s1.validate(df()), lambda: s2.validate(df())]

    def frame_and_series():
        s1 = pa.DataFrameSchema({"a": pa.Column(int, pa.Check.ge(0))})
        s2 = pa.SeriesSchema(int, pa.Check.ge(0))
        return [lambda: s1.validate(pd.DataFrame({"a": [1, 2]})), lambda: _ser(s2.validate(pd.Series([1, 2])))]

    def _ser(x):
        return x.to_frame("s")

    return {"cold_two_frames": two_frames, "cold_frame_and_series": frame_and_series}


def cold_once(argv) -> int:
    """one scheduled execution of a cold-start scenario in THIS (fresh) interpreter; prints one JSON record"""
    global SCHED
    name, first, sw = argv[0], int(argv[1]), [int(x) for x in argv[2].split(",") if x]
    import warnings

    warnings.simplefilter("ignore")
    install_registries()                      # no component / configuration cells are tracked in a cold run
    jobs = cold_scenarios()[name]()
    SCHED = Scheduler(["A", "B"], first, sw)
    res = SCHED.run(jobs)
    events = [{"ev": "init", "mem": [], "override": [], "owners": [], "cfgloc": 0}] + SCHED.events
    n = SCHED.count
    SCHED = None
    outs = [outcome(r) for r in res]
    so = []
    for j in cold_scenarios()[name]():             # the same validations, one at a time, afterwards
        try:
            so.append(outcome(("ok", j())))
        except BaseException as exc:  # noqa: BLE001
            so.append(outcome(("exc", exc)))
    print("COLD " + json.dumps({"scenario": name, "relation": "distinct", "first": first, "switch_at": sw, "solo": so,
                                "outcomes": outs, "events": events, "n": n}))
    return 0


def cold_runs(tier: str) -> List[Dict[str, Any]]:
    import os
    import subprocess
    from concurrent.futures import ThreadPoolExecutor

    env = dict(os.environ)

    def one(args):
        p = subprocess.run([sys.executable, "-m", "vf.sched", "--cold"] + [str(a) for a in args], env=env, stdout=subprocess.PIPE,
                           stderr=subprocess.PIPE, text=True, timeout=600)
        line = next((ln for ln in p.stdout.splitlines() if ln.startswith("COLD ")), None)
        if line is None:
            raise RuntimeError("cold run %s failed: %s" % (args, (p.stderr or p.stdout)[-600:]))
        return json.loads(line[5:])

    out: List[Dict[str, Any]] = []
    for name in (("cold_two_frames", "cold_frame_and_series") if tier == "thorough" else ("cold_two_frames",)):
        base = one([name, 0, ""])
        n = base["n"]
        pts = list(range(1, n + 1))
        jobs = [[name, f, str(i)] for f in (0, 1) for i in pts]          # every single preemption
        if tier == "thorough":
            jobs += [[name, f, "%d,%d" % (i, j)] for f in (0, 1) for i in pts[::3] for j in pts[::3] if j > i]
        with ThreadPoolExecutor(max_workers=int(os.environ.get("VERIF_NPROC", "14"))) as ex:
            out += [base] + list(ex.map(one, jobs))
    for r in out:
        r.pop("n", None)
    return out


def main(argv) -> int:
    if argv and argv[0] == "--cold":
        return cold_once(argv[1:])
    out, seed, tier = argv[0], int(argv[1]), argv[2]
    import warnings

    warnings.simplefilter("ignore")
    install_hooks()
    rng = random.Random(seed)
    runs = []
    for name, make in scenarios().items():
        # warm-up (back-end registration) and solo outcomes
        so = solo(make)
        _o, _e, n, _r = run_once(make, 0, [])
        for first, sw in schedules(n // 2, n, tier, rng):
            outs, events, _n, relation = run_once(make, first, sw)
            runs.append({"scenario": name, "relation": relation, "first": first, "switch_at": sw,
                         "solo": so, "outcomes": outs, "events": events})
    runs += cold_runs(tier)
    with open(out, "w") as fh:
        json.dump(runs, fh)
    print("scheduled executions: %d, events: %d" % (len(runs), sum(len(r["events"]) for r in runs)))
    return 0


if __name__ == "__main__":
    sys.exit(main(sys.argv[1:]))
