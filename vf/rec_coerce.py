"""C10 recorder (code -> spec): what the real coerce_value / try_coerce / coercing schemas do.

``python -m vf.rec_coerce <out.json> <seqs.json> <backend> <tier> <seed>``

seqs.json holds the value pool and the sequences enumerated by TLC (Coerce.tla, Mode="enum").
For every coercible data type of the engine the recorder logs the table CV (does coerce_value
accept pool element v) and one event per (type, container): the outcome of try_coerce (or of a
coercing Column schema), and the raw facts the contract in Coerce.tla talks about.  Nothing is
judged here.
"""
from __future__ import annotations

import json
import multiprocessing as mp
import os
import random
import sys
import warnings
from typing import Any, Dict, List, Tuple

LABELS = [10, 20, 30, 40]


def concrete(p: Dict[str, Any]) -> Any:
    import pandas as pd

    vk = p["vk"]
    if vk == "int":
        return int(p["n"])
    if vk == "float":
        return p["h"] / 2.0
    if vk == "str":
        return p["s"]
    if vk == "bool":
        return bool(p["b"])
    if vk == "null":
        return None
    if vk == "ts":
        return pd.Timestamp("2020-01-01")
    raise ValueError(vk)


def is_null(x: Any) -> bool:
    import pandas as pd

    try:
        if hasattr(x, "as_py"):
            x = x.as_py()
        r = pd.isna(x)
        return bool(r) if not hasattr(r, "__len__") else False
    except Exception:  # noqa: BLE001
        return False


def same_value(a: Any, b: Any) -> bool:
    """representation-level equality of two implementation outputs"""
    if hasattr(a, "as_py"):
        a = a.as_py()
    if hasattr(b, "as_py"):
        b = b.as_py()
    if is_null(a) and is_null(b):
        return True
    if is_null(a) != is_null(b):
        return False
    try:
        r = a == b
        if hasattr(r, "all"):
            r = r.all()
        return bool(r)
    except Exception:  # noqa: BLE001
        return False


# ------------------------------------------------------------------------------------------------
def pandas_types() -> List[Tuple[str, Any]]:
    from pandera.engines import pandas_engine as PE
    from .rec_dtypes import clsname_of

    out = []
    skip = ("PydanticModel", "Python", "Period", "Interval", "Sparse", "Geometry", "ArrowStruct", "ArrowMap",
            "ArrowList", "ArrowNull", "ArrowDictionary", "ArrowBinary", "ArrowLargeBinary", "ArrowFixed")
    for c in sorted(PE.Engine.get_registered_dtypes(), key=lambda c: (c.__module__, c.__qualname__)):
        if any(c.__name__.startswith(s) for s in skip):
            continue
        try:
            with warnings.catch_warnings():
                warnings.simplefilter("ignore")
                t = PE.Engine.dtype(c)
        except Exception:  # noqa: BLE001
            continue
        out.append((clsname_of(c), t))
    out.append(("pandas_engine.DateTime[UTC]", PE.DateTime(tz="UTC")))
    out.append(("pandas_engine.Category[a,1]", PE.Category(categories=["a", "1", 1, 0], ordered=False)))
    out.append(("pandas_engine.Decimal[10,1]", PE.Decimal(10, 1)))
    return out


def polars_types() -> List[Tuple[str, Any]]:
    from pandera.engines import polars_engine as PL
    from .rec_dtypes import clsname_of

    out = []
    skip = ("Array", "List", "Struct", "Object", "Null", "Binary", "Enum", "Category")
    for c in sorted(PL.Engine.get_registered_dtypes(), key=lambda c: c.__qualname__):
        if c.__name__ in skip:
            continue
        try:
            t = PL.Engine.dtype(c)
        except Exception:  # noqa: BLE001
            continue
        out.append((clsname_of(c), t))
    return out


def describe(name: str, t: Any) -> Dict[str, Any]:
    from .rec_dtypes import native_sig, declared_sig

    ns = native_sig(t)
    ds = declared_sig(t)
    kind = ns[0]
    if ds[0] in ("decimal", "date", "category") and kind in ("object", "str"):
        kind = ds[0]
    if kind.startswith("other") and "decimal" in str(t).lower():
        kind = "decimal"                       # polars Decimal(precision, scale)
    nat = getattr(t, "type", None)
    mod = type(nat).__module__ if nat is not None else ""
    if kind == "datetime" and (getattr(t, "tz", None) is not None or getattr(t, "time_zone", None) is not None
                               or getattr(getattr(nat, "pyarrow_dtype", None), "tz", None) is not None):
        kind = "datetimetz"
    if "polars" in type(t).__module__:
        flavour = "polars"
    elif type(nat).__name__ == "ArrowDtype":
        flavour = "arrow"
    elif mod.startswith("pandas"):
        flavour = "extension"
    elif kind in ("decimal", "date"):
        flavour = "object"
    else:
        flavour = "numpy"
    return {"name": name, "tk": kind if not kind.startswith("other") else "other", "signed": ns[1], "bits": ns[2],
            "flavour": flavour, "str": str(t)}


# ------------------------------------------------------------------------------------------------
_G: Dict[str, Any] = {}


def _init(backend: str, pool: List[Dict[str, Any]]):
    warnings.filterwarnings("ignore")
    _G["pool"] = pool
    _G["vals"] = [concrete(p) for p in pool]
    _G["backend"] = backend
    _G["types"] = pandas_types() if backend == "pandas" else polars_types()
    _G["cvval"] = {}


def cv(ti: int, v: Any) -> Tuple[bool, Any]:
    """the real element-level conversion of the ACTUAL container element v (after pandas' own inference)"""
    key = (ti, type(v).__name__, repr(v))
    if key not in _G["cvval"]:
        t = _G["types"][ti][1]
        try:
            if _G["backend"] == "pandas":
                with warnings.catch_warnings():
                    warnings.simplefilter("ignore")
                    r = t.coerce_value(v)
                _G["cvval"][key] = (True, r)
            else:
                import polars as pl
                from pandera.api.polars.types import PolarsData

                lf = pl.LazyFrame({"x": [v]})
                out = t.try_coerce(PolarsData(lf, "x")).collect()
                _G["cvval"][key] = (True, out["x"][0])
        except Exception:  # noqa: BLE001
            _G["cvval"][key] = (False, None)
    return _G["cvval"][key]


def _pandas_event(ti: int, c: List[int], cont: str, phys: str) -> Dict[str, Any]:
    import numpy as np
    import pandas as pd
    from pandera import errors
    from pandera.engines import pandas_engine as PE

    t = _G["types"][ti][1]
    vals = [_G["vals"][v - 1] for v in c]
    n = len(vals)
    labels = LABELS[:n]
    dtype = object if phys == "object" else None
    ev: Dict[str, Any] = {"t": ti + 1, "c": c, "cont": cont, "phys": phys}
    with warnings.catch_warnings():
        warnings.simplefilter("ignore")
        if cont == "index":
            data = pd.Index(vals, dtype=dtype)
        else:
            data = pd.Series(vals, index=labels, dtype=dtype, name="x")
        before = data.copy(deep=True)

        def run(obj):
            if cont == "column":
                import pandera as pa

                schema = pa.DataFrameSchema({"x": pa.Column(t, coerce=True, nullable=True)})
                try:
                    out = schema.validate(pd.DataFrame({"x": obj, "y": list(range(len(obj)))}, index=obj.index))
                    return "ok", out["x"], None
                except errors.SchemaError as exc:
                    if exc.reason_code is not None and exc.reason_code.name == "DATATYPE_COERCION":
                        return "parser", None, exc.failure_cases
                    return "other:%s" % (exc.reason_code.name if exc.reason_code else "SchemaError"), None, None
                except Exception as exc:  # noqa: BLE001
                    return "other:" + type(exc).__name__, None, None
            try:
                return "ok", t.try_coerce(obj), None
            except errors.ParserError as exc:
                return "parser", None, exc.failure_cases
            except Exception as exc:  # noqa: BLE001
                return "other:" + type(exc).__name__, None, None

        def conforms(obj) -> bool:
            try:
                r = t.check(PE.Engine.dtype(obj.dtype), obj if cont != "index" else obj.to_series())
                return bool(r) if isinstance(r, (bool, np.bool_)) else bool(np.all(r))
            except Exception:  # noqa: BLE001
                return False

        ev["conforming"] = conforms(data)
        outcome, out, fc = run(data)
        ev["outcome"] = outcome
        ev["input_unchanged"] = bool(before.equals(data)) and before.dtype == data.dtype
        ev.update({"len_ok": True, "labels_ok": True, "check_ok": True, "same": [True] * n, "null_out": [False] * n,
                   "identical": True, "again": "ok", "again_same": True, "fc": [], "fc_vals_ok": True})
        # the elements as pandera's own element-wise pass sees them (Series.map hands out Python scalars)
        elems: List[Any] = []
        (data.to_series() if cont == "index" else data).map(lambda x: elems.append(x) or x)
        ev["cv"] = [bool(cv(ti, x)[0]) for x in elems]
        if outcome == "ok":
            ev["len_ok"] = len(out) == n
            if cont == "index":
                ev["labels_ok"] = True
                outvals = list(out)
            else:
                ev["labels_ok"] = list(out.index) == labels
                outvals = list(out.iloc[i] for i in range(len(out)))
            ev["check_ok"] = conforms(out)
            if ev["len_ok"]:
                same, nulls = [], []
                for i, x in enumerate(elems):
                    ok, want = cv(ti, x)
                    same.append(bool(ok and same_value(outvals[i], want)))
                    nulls.append(is_null(outvals[i]))
                ev["same"], ev["null_out"] = same, nulls
                # identity is about values and labels; the physical flavour (int64 -> Int64) may change
                ev["identical"] = all(same_value(a, b) for a, b in zip(outvals, elems)) and ev["labels_ok"]
            else:
                ev["identical"] = False
            o2, out2, _ = run(out)
            ev["again"] = o2.split(":")[0]
            try:
                ev["again_same"] = o2 == "ok" and bool(out2.equals(out)) and out2.dtype == out.dtype
            except Exception:  # noqa: BLE001
                ev["again_same"] = False
        elif outcome == "parser":
            pos: List[int] = []
            vals_ok = True
            if fc is not None and len(fc):
                try:
                    for _, row in fc.iterrows():
                        idx, val = row["index"], row["failure_case"]
                        if cont == "index":
                            # an Index is its own label: the element is identified by the reported value
                            hits = [i for i, x in enumerate(elems)
                                    if (is_null(x) and is_null(val)) or (type(x) is type(val) and same_value(x, val))]
                        else:
                            hits = [i for i, lab in enumerate(labels) if lab == idx]
                        if not hits:
                            vals_ok = False
                        for i in hits:
                            pos.append(i + 1)
                            if not (same_value(elems[i], val) or str(elems[i]) == str(val)):
                                vals_ok = False
                except Exception:  # noqa: BLE001
                    vals_ok = False
            ev["fc"] = sorted(set(pos))
            ev["fc_vals_ok"] = vals_ok
    return ev


def _polars_event(ti: int, c: List[int]) -> Dict[str, Any]:
    import polars as pl
    from pandera import errors
    from pandera.api.polars.types import PolarsData
    from pandera.engines import polars_engine as PL

    t = _G["types"][ti][1]
    vals = [_G["vals"][v - 1] for v in c]
    n = len(vals)
    ev: Dict[str, Any] = {"t": ti + 1, "c": c, "cont": "column", "phys": "infer"}
    vals = [v.to_pydatetime() if hasattr(v, "to_pydatetime") else v for v in vals]
    lf = pl.LazyFrame({"x": vals, "y": list(range(n))})
    src_dtype = lf.collect_schema()["x"]

    def run(frame):
        try:
            out = t.try_coerce(PolarsData(frame, "x")).collect()
            return "ok", out, None
        except errors.ParserError as exc:
            return "parser", None, exc.failure_cases
        except Exception as exc:  # noqa: BLE001
            return "other:" + type(exc).__name__, None, None

    def conforms(dt) -> bool:
        try:
            return bool(t.check(PL.Engine.dtype(dt)))
        except Exception:  # noqa: BLE001
            return False

    ev["conforming"] = conforms(src_dtype)
    outcome, out, fc = run(lf)
    ev["outcome"] = outcome
    ev["input_unchanged"] = True
    ev.update({"len_ok": True, "labels_ok": True, "check_ok": True, "same": [True] * n, "null_out": [False] * n,
               "identical": True, "again": "ok", "again_same": True, "fc": [], "fc_vals_ok": True})
    ev["cv"] = [bool(cv(ti, x)[0]) for x in vals]
    if outcome == "ok":
        ev["len_ok"] = out.height == n
        ev["labels_ok"] = list(out["y"]) == list(range(n))
        ev["check_ok"] = conforms(out.schema["x"])
        if ev["len_ok"]:
            same, nulls = [], []
            for i, x in enumerate(vals):
                ok, want = cv(ti, x)
                same.append(bool(ok and same_value(out["x"][i], want)))
                nulls.append(out["x"][i] is None)
            ev["same"], ev["null_out"] = same, nulls
        ev["identical"] = out.schema["x"] == src_dtype and out["x"].to_list() == lf.collect()["x"].to_list()
        o2, out2, _ = run(out.lazy())
        ev["again"] = o2.split(":")[0]
        ev["again_same"] = o2 == "ok" and out2.schema["x"] == out.schema["x"] and out2["x"].to_list() == out["x"].to_list()
    elif outcome == "parser":
        pos: List[int] = []
        vals_ok = True
        try:
            if hasattr(fc, "collect"):
                fc = fc.collect()
            for val in fc["x"].to_list():
                hits = [i for i, x in enumerate(vals) if (x is None and val is None) or (x is not None and val is not None and same_value(x, val))]
                if not hits:
                    vals_ok = False
                pos.extend(i + 1 for i in hits)
        except Exception:  # noqa: BLE001
            vals_ok = False
        ev["fc"] = sorted(set(pos))
        ev["fc_vals_ok"] = vals_ok
    return ev


def _work(job):
    ti, items = job
    out = []
    for c, cont, phys in items:
        try:
            if _G["backend"] == "pandas":
                out.append(_pandas_event(ti, c, cont, phys))
            else:
                out.append(_polars_event(ti, c))
        except BaseException as exc:  # noqa: BLE001
            out.append({"harness_error": "%s: %s" % (type(exc).__name__, exc), "t": ti + 1, "c": c, "cont": cont})
    row = [bool(cv(ti, v)[0]) for v in _G["vals"]]
    return ti, row, out


def homogeneous(pool, c) -> bool:
    kinds = {pool[v - 1]["vk"] for v in c if pool[v - 1]["vk"] != "null"}
    return len(kinds) <= 1 and any(pool[v - 1]["vk"] != "null" for v in c)


def main(argv: List[str]) -> int:
    out_path, seq_path, backend, tier, seed = argv[0], argv[1], argv[2], argv[3], int(argv[4])
    doc = json.loads(open(seq_path).read())
    pool, seqs = doc["pool"], doc["seqs"]
    warnings.filterwarnings("ignore")
    _init(backend, pool)
    types = _G["types"]
    rng = random.Random(seed)
    jobs = []
    for ti in range(len(types)):
        items = []
        for c in seqs:
            if backend == "polars":
                if homogeneous(pool, c):
                    items.append((c, "column", "infer"))
                continue
            items.append((c, "series", "object"))
            if homogeneous(pool, c):
                items.append((c, "series", "infer"))
            # Index and schema-level column coercion on a seeded third of the containers (all in thorough)
            if tier == "thorough" or rng.random() < 0.34:
                items.append((c, "index", "object"))
            if tier == "thorough" or rng.random() < 0.34:
                items.append((c, "column", "object"))
        jobs.append((ti, items))
    ctx = mp.get_context("fork")
    nproc = int(os.environ.get("VERIF_NPROC", "16"))
    cvt: List[Any] = [None] * len(types)
    events: List[Dict[str, Any]] = []
    with ctx.Pool(nproc, initializer=_init, initargs=(backend, pool)) as p:
        for ti, row, evs in p.imap_unordered(_work, jobs):
            cvt[ti] = row
            events.extend(evs)
    events.sort(key=lambda e: (e["t"], e["cont"], e.get("phys", ""), e["c"]))
    with open(out_path, "w") as fh:
        json.dump({"backend": backend, "types": [describe(n, t) for n, t in types], "cv": cvt, "events": events}, fh)
    return 0


if __name__ == "__main__":
    sys.exit(main(sys.argv[1:]))
