"""`check --selftest`: demonstrate that the specification is BOUND to the code.

For each binding direction a recorded artefact is corrupted and the machinery must reject it:
  1. spec -> code: the prediction of replayed vectors is altered (C15 schema operations, C17 decorator
     scenarios, C14 inference) - the comparator must report a mismatch; unaltered vectors must not.
  2. code -> spec, traces: one logged field of a recorded config_context trace is altered, and one
     event is dropped - TLC must reject Trace_Config for exactly that trace.
  3. code -> spec, tables: one resolution of the recorded numpy dtype table is redirected - the laws of
     Dtypes.tla must produce witnesses; one failure-case set of a recorded coercion is emptied -
     Coerce.tla must report FailureCasesExact.
Exit 0 when every corruption is detected and no clean artefact is rejected.
"""
from __future__ import annotations

import copy
import json
import os
import shutil
import sys
import tempfile
from typing import Any, Dict, List

from . import pool, tlc, tracecheck


def _vectors(module: str, cfg: str, keep=None, limit: int = 0) -> List[Dict[str, Any]]:
    """vectors printed by TLC; with `keep`/`limit` only the first `limit` vectors satisfying `keep` are retained"""
    if keep is None:
        return tlc.run_tlc(module, cfg, workers=8).vectors
    out: List[Dict[str, Any]] = []

    def sink(v, _n):
        if len(out) < limit and keep(v):
            out.append(v)

    tlc.run_tlc(module, cfg, workers=8, sink=sink)
    return out


def check_vectors(report: List[str]) -> bool:
    from .props import c14, c15, c17

    ok = True
    # C15: flip one attribute of the predicted schema after the first step
    vecs = [v for v in _vectors("MC_SchemaOps", "mc/MC_SchemaOps_quick.cfg") if v.get("kind") == "schemaops"]
    header = next((v for v in _vectors("MC_SchemaOps", "mc/MC_SchemaOps_quick.cfg") if v.get("kind") == "header"), None)
    sample = [v for v in vecs if "schema" in v["expect"][0] and not v.get("devs")][:40]
    obs = pool.replay(sample, "vf.obs_schemaops", "observe_schemaops", header=header, nproc=4)
    clean = sum(1 for v, o in zip(sample, obs) if c15.compare(v, o).mismatches)
    caught = 0
    for v, o in zip(sample, obs):
        w = copy.deepcopy(v)
        w["expect"][0]["schema"]["cols"][0]["nullable"] = not w["expect"][0]["schema"]["cols"][0]["nullable"]
        caught += 1 if c15.compare(w, o).mismatches else 0
    report.append("C15 vectors: %d clean vectors, %d rejected clean, %d/%d corrupted predictions rejected" % (len(sample), clean, caught, len(sample)))
    ok &= clean == 0 and caught == len(sample)
    # C17: swap the predicted outcome
    vecs = [v for v in _vectors("Decorators", "mc/MC_Decorators_quick.cfg") if v.get("kind") == "deco"]
    sample = [v for v in vecs if v["sc"]["kind"] == "function" and v["sc"]["dfpass"] == "pos" and v["sc"]["getter"] != "int" and v["sc"]["data"] != "stale"][:60]
    obs = pool.replay(sample, "vf.obs_decorators", "observe_deco", nproc=4)
    clean = sum(1 for v, o in zip(sample, obs) if c17.compare(v, o).mismatches)
    caught = 0
    for v, o in zip(sample, obs):
        w = copy.deepcopy(v)
        w["expect"]["called"] = not w["expect"]["called"]
        caught += 1 if c17.compare(w, o).mismatches else 0
    report.append("C17 vectors: %d clean, %d rejected clean, %d/%d corrupted rejected" % (len(sample), clean, caught, len(sample)))
    ok &= clean == 0 and caught == len(sample)
    # C14: loosen one inferred bound
    vecs = [v for v in _vectors("Infer", "mc/MC_Infer_quick.cfg") if v.get("kind") == "infer"]
    sample = [v for v in vecs if v["pd"] == "int64" and v["cont"] == "column" and len(v["expect"]["checks"]) == 2][:20]
    obs = pool.replay(sample, "vf.obs_infer", "observe_infer", nproc=4)
    clean = sum(1 for v, o in zip(sample, obs) if c14.compare(v, o).mismatches)
    caught = 0
    for v, o in zip(sample, obs):
        w = copy.deepcopy(v)
        w["expect"]["checks"][0]["a"][0][1] -= 2          # a lower bound that is no longer tight
        caught += 1 if c14.compare(w, o).mismatches else 0
    report.append("C14 vectors: %d clean, %d rejected clean, %d/%d corrupted rejected" % (len(sample), clean, caught, len(sample)))
    ok &= clean == 0 and caught == len(sample)
    # MultiIndex component: claim that a coerced level keeps its original dtype
    from .props import component

    sample = _vectors("MultiIndex", "mc/MC_MultiIndex_quick.cfg", limit=40,
                      keep=lambda v: v.get("kind") == "multiindex" and v["expect"]["kind"] == "ok" and v["expect"]["returned"] != v["levels"])
    obs = pool.replay(sample, "vf.obs_multiindex", "observe_multiindex", nproc=4)
    clean = sum(1 for v, o in zip(sample, obs) if component.compare_mi_c03(v, o).mismatches)
    caught = 0
    for v, o in zip(sample, obs):
        w = copy.deepcopy(v)
        w["expect"]["returned"] = w["levels"]
        caught += 1 if component.compare_mi_c03(w, o).mismatches else 0
    report.append("MultiIndex vectors: %d clean, %d rejected clean, %d/%d corrupted rejected" % (len(sample), clean, caught, len(sample)))
    ok &= clean == 0 and caught == len(sample) and len(sample) > 0
    # FrameRows: claim that one more row survives drop_invalid_rows
    from .props import c11

    vecs = _vectors("FrameRows", "mc/MC_FrameRows_quick.cfg", limit=40,
                    keep=lambda v: v.get("kind") == "rows" and v["mode"] == "drop" and not v.get("devs")
                    and len(v["expect"]["kept"]) < len(v["a"]))
    obs = pool.replay(vecs, "vf.obs_rows", "observe_rows", nproc=4)
    clean = sum(1 for v, o in zip(vecs, obs) if c11.compare_rows(v, o).mismatches)
    caught = 0
    for v, o in zip(vecs, obs):
        w = copy.deepcopy(v)
        w["expect"]["kept"] = list(range(1, len(w["a"]) + 1))
        caught += 1 if c11.compare_rows(w, o).mismatches else 0
    report.append("FrameRows vectors: %d clean, %d rejected clean, %d/%d corrupted rejected" % (len(vecs), clean, caught, len(vecs)))
    ok &= clean == 0 and caught == len(vecs) and len(vecs) > 0
    return ok


def check_traces(report: List[str]) -> bool:
    traces, path = tracecheck.record("vf.rec_config", ["0", "60"])
    tmp = os.path.dirname(path)
    ok = True
    try:
        res = tracecheck.validate("Trace_Config", "mc/Trace_Config.cfg", path)
        report.append("Trace_Config: %d recorded traces accepted=%s" % (len(traces), res["rejected"] is None))
        ok &= res["rejected"] is None
        # corrupt one logged field
        tid = next(i for i, t in enumerate(traces) if any(e["ev"] == "enter" for e in t[1:]))
        bad = copy.deepcopy(traces)
        ev = next(e for e in bad[tid][1:] if e["ev"] == "enter")
        ev["ctx"]["depth"] = "DATA_ONLY" if ev["ctx"]["depth"] != "DATA_ONLY" else "SCHEMA_ONLY"
        p2 = os.path.join(tmp, "corrupt.json")
        json.dump(bad, open(p2, "w"))
        r2 = tracecheck.validate("Trace_Config", "mc/Trace_Config.cfg", p2)
        hit = r2["rejected"] is not None and r2["rejected"].get("tid") == tid + 1
        report.append("Trace_Config: altered ctx.depth in trace %d -> rejected=%s at %s" % (tid + 1, r2["rejected"] is not None, r2["rejected"]))
        ok &= hit
        # drop one event (an exit): the stack discipline no longer explains the rest
        bad = copy.deepcopy(traces)
        tid2 = next(i for i, t in enumerate(bad) if sum(1 for e in t if e["ev"] == "exit") >= 1 and len(t) > 3)
        idx = next(i for i, e in enumerate(bad[tid2]) if e["ev"] == "exit")
        del bad[tid2][idx]
        json.dump(bad, open(p2, "w"))
        r3 = tracecheck.validate("Trace_Config", "mc/Trace_Config.cfg", p2)
        report.append("Trace_Config: dropped an exit event of trace %d -> rejected=%s" % (tid2 + 1, r3["rejected"] is not None))
        ok &= r3["rejected"] is not None
    finally:
        tracecheck.cleanup(path)
    return ok


def check_tables(report: List[str]) -> bool:
    from .props import c09, c10

    ok = True
    tmp = tempfile.mkdtemp(prefix="vf-selftest-")
    try:
        doc = c09._record("numpy", "-", tmp)
        i64 = next(i for i, k in enumerate(doc["keys"]) if k["sp"] == "numpy.int64")
        f64 = next(i for i, k in enumerate(doc["keys"]) if k["sp"] == "numpy.float64")
        doc["res"][i64] = doc["res"][f64]              # numpy.int64 now resolves to the float64 type
        p = os.path.join(tmp, "tables.json")
        json.dump([doc], open(p, "w"))
        res = tlc.run_tlc("Dtypes", "mc/MC_Dtypes_laws.cfg", workers=2, env={"DTYPES_FILE": p})
        hit = {v["law"]: v["count"] for v in res.vectors if v.get("kind") == "law" and v["count"]}
        report.append("Dtypes: numpy.int64 redirected to float64 -> laws with witnesses %s" % hit)
        ok &= "EquivalentsEqual" in hit and "ResolutionConforms" in hit
        # Coerce: empty a failure-case set
        res = tlc.run_tlc("Coerce", "mc/MC_Coerce_enum_quick.cfg", workers=1)
        pool_ = next(v["pool"] for v in res.vectors if v.get("kind") == "pool")
        sp = os.path.join(tmp, "seqs.json")
        json.dump({"pool": pool_, "seqs": [[9], [2, 9], [9, 13]]}, open(sp, "w"))
        rec = c10._record("pandas", sp, tmp, "quick", 0)["doc"]
        evs = [e for e in rec["events"] if e["outcome"] == "parser" and e["fc"]]
        rec["events"] = evs[:50]
        for e in rec["events"]:
            e["fc"] = []
        cp = os.path.join(tmp, "co.json")
        json.dump(rec, open(cp, "w"))
        jr = tlc.run_tlc("Coerce", "mc/MC_Coerce_judge.cfg", workers=4, env={"COERCE_FILE": cp})
        broken = [v for v in jr.vectors if v.get("kind") == "broken" and "FailureCasesExact" in v["clauses"]]
        report.append("Coerce: failure cases removed from %d recorded ParserErrors -> %d rejected" % (len(rec["events"]), len(broken)))
        ok &= len(broken) == len(rec["events"]) and len(broken) > 0
    finally:
        shutil.rmtree(tmp, ignore_errors=True)
    return ok


def main() -> int:
    report: List[str] = []
    ok = True
    try:
        ok &= check_vectors(report)
        ok &= check_traces(report)
        ok &= check_tables(report)
    except tlc.MachineryError as exc:
        print("MACHINERY-ERROR selftest %s" % exc, file=sys.stderr)
        return 2
    for line in report:
        print("selftest: " + line)
    print("selftest: %s" % ("every corruption was rejected, no clean artefact was" if ok else "FAILED"))
    return 0 if ok else 1


if __name__ == "__main__":
    sys.exit(main())
