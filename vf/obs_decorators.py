"""Replay Decorators.tla scenarios: generate the decorated function, call it, observe (C17)."""
from __future__ import annotations

import asyncio
import types
import warnings
from typing import Any, Dict, List

HEADER = """
import types
import pandas as pd
import pandera as pa
from typing import Optional
from pandera.typing import DataFrame, Series

SCHEMA = pa.DataFrameSchema({"a": pa.Column(int, [pa.Check.ge(0), pa.Check.le(10)], coerce=True)})
SCHEMA_NC = pa.DataFrameSchema({"a": pa.Column(int, [pa.Check.ge(0), pa.Check.le(10)])})

class M(pa.DataFrameModel):
    a: Series[int] = pa.Field(ge=0, le=10, coerce=True)
"""

SIG = {"df_k": "df, k", "k_df": "k, df", "df_kdef": "df, k=7", "df_star": "df, *rest", "df_kwonly": "df, *, k", "df_starkw": "df, **kw"}
SIG_T = {"df_k": "df: DataFrame[M], k: int", "k_df": "k: int, df: DataFrame[M]", "df_kdef": "df: DataFrame[M], k: int = 7",
         "df_star": "df: DataFrame[M], *rest", "df_kwonly": "df: DataFrame[M], *, k: int", "df_starkw": "df: DataFrame[M], **kw"}
KEXPR = {"df_k": "k", "k_df": "k", "df_kdef": "k", "df_star": "(rest[0] if rest else 7)", "df_kwonly": "k", "df_starkw": "kw.get('k', 7)"}
OPTS = {"none": "", "head1": "head=1", "tail1": "tail=1", "lazy": "lazy=True"}


def decorator_src(sc: Dict[str, Any]) -> str:
    deco, g, o = sc["deco"], sc["getter"], OPTS[sc["opt"]]
    if deco == "check_input":
        getter = {"none": "", "int": str(1 if sc["sig"] == "k_df" else 0), "str": "'df'"}[g]
        args = ", ".join(x for x in ("SCHEMA", getter, o) if x)
        return "pa.check_input(%s)" % args
    if deco == "check_output":
        schema = "SCHEMA_NC" if g == "callable" else "SCHEMA"
        getter = {"none": "", "int": "0", "str": "'out'", "callable": "(lambda o: o.out)"}[g]
        args = ", ".join(x for x in (schema, getter, o) if x)
        return "pa.check_output(%s)" % args
    if deco == "check_io":
        return "pa.check_io(%s)" % ", ".join(x for x in ("df=SCHEMA", "out=SCHEMA", o) if x)
    return "pa.check_types(%s)" % o if o else "pa.check_types"


def function_src(sc: Dict[str, Any]) -> str:
    deco = sc["deco"]
    sig = (SIG_T if deco == "check_types" else SIG)[sc["sig"]]
    ret = " -> DataFrame[M]" if deco == "check_types" else ""
    if sc["getter"] == "annotation_optional":
        sig = sig.replace("DataFrame[M]", "Optional[DataFrame[M]]")
        ret = " -> Optional[DataFrame[M]]"
    kexpr = KEXPR[sc["sig"]]
    if deco == "check_input":
        result = "('R', %s)" % kexpr
    elif deco == "check_output":
        result = {"none": "df", "int": "(df, %s)" % kexpr, "str": "{'out': df, 'k': %s}" % kexpr,
                  "callable": "types.SimpleNamespace(out=df, k=%s)" % kexpr}[sc["getter"]]
    else:
        result = "df"
    body = ["    LOG.append(('body', df, %s))" % kexpr, "    return %s" % result]
    kind = sc["kind"]
    d = "@" + decorator_src(sc)
    if kind == "function":
        return "\n".join([d, "def f(%s)%s:" % (sig, ret)] + body) + "\n"
    if kind == "async":
        return "\n".join([d, "async def f(%s)%s:" % (sig, ret)] + body) + "\n"
    ind = lambda ls: ["    " + x for x in ls]  # noqa: E731
    if kind == "method":
        return "\n".join(["class C:"] + ind([d, "def f(self, %s)%s:" % (sig, ret)] + body)) + "\n"
    if kind == "classmethod":
        return "\n".join(["class C:"] + ind(["@classmethod", d, "def f(cls, %s)%s:" % (sig, ret)] + body)) + "\n"
    if kind == "staticmethod":
        return "\n".join(["class C:"] + ind(["@staticmethod", d, "def f(%s)%s:" % (sig, ret)] + body)) + "\n"
    raise ValueError(kind)


def make_data(name: str, ns: Dict[str, Any]):
    import pandas as pd

    if name == "good":
        return pd.DataFrame({"a": [1, 2]})
    if name == "bad_row2":
        return pd.DataFrame({"a": [1, -5]})
    if name == "bad_row1":
        return pd.DataFrame({"a": [-5, 1]})
    if name == "bad_two":
        return pd.DataFrame({"a": [-5, 50]})
    if name == "coercible":
        return pd.DataFrame({"a": ["1", "2"]})
    if name == "stale":
        df = ns["M"].validate(pd.DataFrame({"a": [1, 2]}))
        df.loc[0, "a"] = -5            # made invalid after it was validated; it still carries the schema
        return df
    raise ValueError(name)


def classify_frame(x: Any, original: Any) -> str:
    import pandas as pd

    if not isinstance(x, pd.DataFrame):
        return "not-a-frame:%s" % type(x).__name__
    if x is original:
        return "original"
    if str(x["a"].dtype) == "int64" and len(x) == len(original):
        return "parsed"
    return "other:%s" % x["a"].dtype


def observe_deco(vec: Dict[str, Any]) -> Dict[str, Any]:
    import pandera as pa

    sc = vec["sc"]
    out: Dict[str, Any] = {}
    with warnings.catch_warnings():
        warnings.simplefilter("ignore")
        import sys

        mod = types.ModuleType("vf_deco_mod")
        sys.modules[mod.__name__] = mod
        ns = mod.__dict__
        try:
            exec(HEADER, ns)  # noqa: S102
            ns["LOG"] = []
            src = function_src(sc)
            out["source"] = src
            try:
                exec(src, ns)  # noqa: S102 - the generated decorated function is the program under test
            except Exception as e:  # noqa: BLE001
                out["define_error"] = "%s: %s" % (type(e).__name__, str(e)[:160])
                return out
            df = make_data(sc["data"], ns)
            before = df.copy(deep=True)
            args: List[Any] = []
            kwargs: Dict[str, Any] = {}
            # positional arguments in signature order
            order = ["k", "df"] if sc["sig"] == "k_df" else ["df", "k"]
            for name in order:
                how = sc["dfpass"] if name == "df" else sc["kpass"]
                val = df if name == "df" else 3
                if how == "pos":
                    args.append(val)
                elif how == "kw":
                    kwargs[name] = val
            kind = sc["kind"]
            target = ns["f"] if kind in ("function", "async") else (ns["C"]().f if kind == "method" else ns["C"].f)
            try:
                res = target(*args, **kwargs)
                if kind == "async":
                    res = asyncio.run(res)
                outcome = "returned"
            except pa.errors.SchemaErrors:
                outcome, res = "SchemaErrors", None
            except pa.errors.SchemaError:
                outcome, res = "SchemaError", None
            except Exception as e:  # noqa: BLE001
                outcome, res = "raise:%s" % type(e).__name__, None
                out["detail"] = str(e)[:160]
            log = ns["LOG"]
            out["called"] = len(log) > 0
            out["calls"] = len(log)
            expected_k = 3 if sc["kpass"] != "default" else 7
            if log:
                _, got_df, got_k = log[0]
                out["received"] = classify_frame(got_df, df)
                out["k_ok"] = got_k == expected_k
            else:
                out["received"] = "-"
                out["k_ok"] = True
            if outcome == "returned":
                deco = sc["deco"]
                if deco == "check_input":
                    out["outcome"] = "returned" if res == ("R", expected_k) else "returned:%r" % (res,)
                else:
                    g = sc["getter"]
                    try:
                        frame = res if g in ("none", "name", "annotation", "annotation_optional") else res[0] if g == "int" else res["out"] if g == "str" else res.out
                        rest_ok = True if g in ("none", "name", "annotation", "annotation_optional") else (res[1] == expected_k) if g == "int" else \
                            (res["k"] == expected_k) if g == "str" else (res.k == expected_k)
                    except Exception as e:  # noqa: BLE001
                        frame, rest_ok = None, False
                    body_frame = log[0][1] if log else None
                    cls = classify_frame(frame, body_frame if body_frame is not None else df)
                    out["outcome"] = {"original": "returned_original", "parsed": "returned_parsed"}.get(cls, "returned:" + cls)
                    if not rest_ok:
                        out["outcome"] += "+rest-changed"
            else:
                out["outcome"] = outcome
            out["caller_unchanged"] = bool(df.equals(before))
        finally:
            sys.modules.pop(mod.__name__, None)
    return out
