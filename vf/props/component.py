"""Stand-alone Column / Index validation (Component.tla): slice and comparators shared by C03, C04, C06."""
from __future__ import annotations

from typing import Any, Dict, List

from ..core import Outcome, Slice
from ..proj import norm

COMPONENT = Slice(name="Component", module="Component",
                  cfg={"quick": "mc/MC_Component_quick.cfg", "thorough": "mc/MC_Component_thorough.cfg"},
                  observe=("vf.obs_component", "observe_component"), cap={"quick": 8000, "thorough": 0})


def _same_frame(exp: Dict[str, Any], got: Dict[str, Any]) -> List[str]:
    out: List[str] = []
    for j, (e, g) in enumerate(zip(exp["cols"], got["cols"])):
        if [norm(c) for c in e["cells"]] != [norm(c) for c in g["cells"]] or e["pd"] != g["pd"]:
            out.append("column x%d is %s %s, specification %s %s" % (j + 1, g["pd"], g["cells"], e["pd"], e["cells"]))
    if [norm(c) for c in exp["idx"]["cells"]] != [norm(c) for c in got["idx"]["cells"]] or exp["idx"]["pd"] != got["idx"]["pd"]:
        out.append("index is %s %s, specification %s %s" % (got["idx"]["pd"], got["idx"]["cells"], exp["idx"]["pd"], exp["idx"]["cells"]))
    return out


def _sig(vec: Dict[str, Any], obs: Dict[str, Any]) -> str:
    s = vec["schema"]
    return "component|%s|%s|%s|%s|%s" % (vec["comp"], sorted((k, str(v)) for k, v in s.items()), vec["opts"], vec["cols"][0]["pd"], obs["kind"])


def compare_c03(vec: Dict[str, Any], obs: Dict[str, Any]) -> Outcome:
    oc = Outcome()
    exp = vec["expect"]
    who = "%s.validate(df)" % vec["comp"].capitalize()
    if (obs["kind"] == "ok") != (exp["kind"] == "ok") and not obs["kind"].startswith("Leak"):
        oc.mismatches.append("%s: %s, specification %s" % (who, obs["kind"], exp["kind"]))
    elif obs["kind"] == "ok":
        d = _same_frame(exp["returned"], obs["returned"])
        if d:
            oc.mismatches.append("%s returned an object that differs from the parsed frame: %s" % (who, "; ".join(d[:2])))
    if any(vec["schema"].get(k) for k in ("coerce", "parsers")) or vec["schema"].get("default", ["na"])[0] != "na":
        oc.sig = _sig(vec, obs)
    return oc


def compare_c04(vec: Dict[str, Any], obs: Dict[str, Any]) -> Outcome:
    oc = Outcome()
    who = "%s.validate(df, inplace=False)" % vec["comp"].capitalize()
    if not vec["opts"]["inplace"] and not obs["input_unchanged"]:
        oc.mismatches.append("%s modified the caller's frame (outcome %s): before %s, after %s"
                             % (who, obs["kind"], obs["caller_before"], obs["caller_after"]))
    if obs["kind"] == "ok" and not obs.get("type_ok", True):
        oc.mismatches.append("%s did not return a DataFrame" % who)
    oc.sig = _sig(vec, obs)
    return oc


def compare_c06(vec: Dict[str, Any], obs: Dict[str, Any]) -> Outcome:
    oc = Outcome()
    if obs["kind"].startswith("Leak"):
        oc.mismatches.append("%s.validate(df): an internal exception escaped: %s %s" % (vec["comp"].capitalize(), obs["kind"], obs.get("msg", "")[:100]))
    elif obs["kind"] != vec["expect"]["kind"] and obs["kind"] != "ok" and vec["expect"]["kind"] != "ok":
        # lazy=True is documented to raise SchemaErrors, lazy=False SchemaError
        if vec["comp"] == "column" and vec["schema"]["coerce"] and vec["opts"]["lazy"] and obs["kind"] == "SchemaError":
            oc.known = ["ColumnLazyCoercionRaisesSchemaError"]
        else:
            oc.mismatches.append("%s.validate(df, lazy=%s) raised %s, documented %s"
                                 % (vec["comp"].capitalize(), vec["opts"]["lazy"], obs["kind"], vec["expect"]["kind"]))
    oc.sig = _sig(vec, obs)
    return oc


# ---------------------------------------------------------------------------------------------------------------
# MultiIndex.tla: the MultiIndex component, stand-alone and as the index of a DataFrameSchema (C01/C03, C04, C06, C10)

MULTIINDEX = Slice(name="MultiIndex", module="MultiIndex",
                   cfg={"quick": "mc/MC_MultiIndex_quick.cfg", "thorough": "mc/MC_MultiIndex_thorough.cfg"},
                   observe=("vf.obs_multiindex", "observe_multiindex"), cap={"quick": 8000, "thorough": 120000})


def _same_levels(exp: List[Dict[str, Any]], got: List[Dict[str, Any]]) -> List[str]:
    out: List[str] = []
    if [l["name"] for l in exp] != [l["name"] for l in got]:
        return ["level names are %s, specification %s" % ([l["name"] for l in got], [l["name"] for l in exp])]
    for e, g in zip(exp, got):
        if e["pd"] != g["pd"] or [norm(c) for c in e["cells"]] != [norm(c) for c in g["cells"]]:
            out.append("level %s is %s %s, specification %s %s" % (e["name"], g["pd"], g["cells"], e["pd"], e["cells"]))
    return out


def _mi_sig(vec: Dict[str, Any], obs: Dict[str, Any]) -> str:
    s = vec["schema"]
    return "multiindex|%s|%s|%s|%s|%s|%s|%s" % (
        [(l["dtype"], l["coerce"], len(l["checks"])) for l in s["lv"]], (s["coerce"], s["strict"], s["ordered"], s["unique"]),
        [l["name"] for l in vec["levels"]], [l["pd"] for l in vec["levels"]], sorted(vec["opts"].items()), obs["kind"],
        obs["in_schema"]["kind"] + "/" + obs["in_series"]["kind"])


def _mi_runs(obs: Dict[str, Any]):
    return (("MultiIndex.validate(df)", obs), ("DataFrameSchema(index=MultiIndex).validate(df)", obs["in_schema"]),
            ("SeriesSchema(index=MultiIndex).validate(series)", obs["in_series"]))


def compare_mi_c03(vec: Dict[str, Any], obs: Dict[str, Any]) -> Outcome:
    """verdict = the declared meaning on the coerced index; what is returned is the coerced index"""
    oc = Outcome()
    exp = vec["expect"]
    for who, o in _mi_runs(obs):
        if o["kind"].startswith("Leak"):
            continue                                   # C06
        if (o["kind"] == "ok") != (exp["kind"] == "ok"):
            oc.mismatches.append("%s: %s %s, specification %s" % (who, o["kind"], o.get("reasons", ""), exp["kind"]))
        elif o["kind"] == "ok":
            d = _same_levels(exp["returned"], o["returned"])
            if d:
                oc.mismatches.append("%s returned an index that differs from the coerced index: %s" % (who, "; ".join(d[:2])))
            if not o.get("x_ok", True):
                oc.mismatches.append("%s changed the data columns" % who)
    oc.sig = _mi_sig(vec, obs)
    return oc


def compare_mi_c04(vec: Dict[str, Any], obs: Dict[str, Any]) -> Outcome:
    oc = Outcome()
    for who, o in _mi_runs(obs):
        if not vec["opts"]["inplace"] and not o["input_unchanged"]:
            oc.mismatches.append("%s with inplace=False modified the caller's frame (outcome %s): index before %s, after %s"
                                 % (who, o["kind"], o["caller_before"], o["caller_after"]))
        if o["kind"] == "ok" and not o.get("type_ok", True):
            oc.mismatches.append("%s did not return a DataFrame" % who)
    oc.sig = _mi_sig(vec, obs)
    return oc


def compare_mi_c06(vec: Dict[str, Any], obs: Dict[str, Any]) -> Outcome:
    oc = Outcome()
    exp = vec["expect"]["kind"]
    for who, o in _mi_runs(obs):
        if o["kind"].startswith("Leak"):
            oc.mismatches.append("%s: an internal exception escaped: %s %s" % (who, o["kind"], o.get("msg", "")[:100]))
        elif o["kind"] != "ok" and exp != "ok" and o["kind"] != exp:
            oc.mismatches.append("%s with lazy=%s raised %s, documented %s" % (who, vec["opts"]["lazy"], o["kind"], exp))
        if o["kind"] != "ok" and not vec["opts"]["inplace"] and not o["input_unchanged"]:
            oc.mismatches.append("%s failed (%s) and left the caller's frame modified" % (who, o["kind"]))
    oc.sig = _mi_sig(vec, obs)
    return oc


def compare_mi_c10(vec: Dict[str, Any], obs: Dict[str, Any]) -> Outcome:
    """coercion of the levels: names, lengths and values of what comes back are the specification's coerced index"""
    oc = Outcome()
    exp = vec["expect"]
    s = vec["schema"]
    if not (s["coerce"] or any(l["coerce"] for l in s["lv"])):
        return oc
    for who, o in _mi_runs(obs):
        if o["kind"] == "ok" and exp["kind"] == "ok":
            d = _same_levels(exp["returned"], o["returned"])
            if d:
                oc.mismatches.append("%s: the coerced index differs from the specification's: %s" % (who, "; ".join(d[:2])))
    oc.sig = _mi_sig(vec, obs)
    return oc


def compare_mi_c01(vec: Dict[str, Any], obs: Dict[str, Any]) -> Outcome:
    """verdict only: accepted exactly when the declared meaning holds of the (coerced) index"""
    oc = Outcome()
    exp = vec["expect"]
    for who, o in _mi_runs(obs):
        if o["kind"].startswith("Leak"):
            continue
        if (o["kind"] == "ok") != (exp["kind"] == "ok"):
            oc.mismatches.append("verdict of %s: specification says %s, pandera %s %s"
                                 % (who, "accept" if exp["kind"] == "ok" else "reject", o["kind"], o.get("reasons", "")))
    oc.sig = _mi_sig(vec, obs)
    return oc
