"""Stand-alone Column / Index validation (Component.tla): slice and comparators shared by C03, C04, C06."""
from __future__ import annotations

from typing import Any, Dict, List

from ..core import Outcome, Slice
from ..proj import norm

COMPONENT = Slice(name="Component", module="Component",
                  cfg={"quick": "mc/MC_Component_quick.cfg", "thorough": "mc/MC_Component_thorough.cfg"},
                  observe=("vf.obs_component", "observe_component"), cap={"quick": 8000, "thorough": 0})


def _same_frame(exp: Dict[str, Any], got: Dict[str, Any]) -> List[str]:
    out: List[str] = []
    for j, (e, g) in enumerate(zip(exp["cols"], got["cols"])):
        if [norm(c) for c in e["cells"]] != [norm(c) for c in g["cells"]] or e["pd"] != g["pd"]:
            out.append("column x%d is %s %s, specification %s %s" % (j + 1, g["pd"], g["cells"], e["pd"], e["cells"]))
    if [norm(c) for c in exp["idx"]["cells"]] != [norm(c) for c in got["idx"]["cells"]] or exp["idx"]["pd"] != got["idx"]["pd"]:
        out.append("index is %s %s, specification %s %s" % (got["idx"]["pd"], got["idx"]["cells"], exp["idx"]["pd"], exp["idx"]["cells"]))
    return out


def _sig(vec: Dict[str, Any], obs: Dict[str, Any]) -> str:
    s = vec["schema"]
    return "component|%s|%s|%s|%s|%s" % (vec["comp"], sorted((k, str(v)) for k, v in s.items()), vec["opts"], vec["cols"][0]["pd"], obs["kind"])


def compare_c03(vec: Dict[str, Any], obs: Dict[str, Any]) -> Outcome:
    oc = Outcome()
    exp = vec["expect"]
    who = "%s.validate(df)" % vec["comp"].capitalize()
    if (obs["kind"] == "ok") != (exp["kind"] == "ok") and not obs["kind"].startswith("Leak"):
        oc.mismatches.append("%s: %s, specification %s" % (who, obs["kind"], exp["kind"]))
    elif obs["kind"] == "ok":
        d = _same_frame(exp["returned"], obs["returned"])
        if d:
            oc.mismatches.append("%s returned an object that differs from the parsed frame: %s" % (who, "; ".join(d[:2])))
    if any(vec["schema"].get(k) for k in ("coerce", "parsers")) or vec["schema"].get("default", ["na"])[0] != "na":
        oc.sig = _sig(vec, obs)
    return oc


def compare_c04(vec: Dict[str, Any], obs: Dict[str, Any]) -> Outcome:
    oc = Outcome()
    who = "%s.validate(df, inplace=False)" % vec["comp"].capitalize()
    if not vec["opts"]["inplace"] and not obs["input_unchanged"]:
        oc.mismatches.append("%s modified the caller's frame (outcome %s): before %s, after %s"
                             % (who, obs["kind"], obs["caller_before"], obs["caller_after"]))
    if obs["kind"] == "ok" and not obs.get("type_ok", True):
        oc.mismatches.append("%s did not return a DataFrame" % who)
    oc.sig = _sig(vec, obs)
    return oc


def compare_c06(vec: Dict[str, Any], obs: Dict[str, Any]) -> Outcome:
    oc = Outcome()
    if obs["kind"].startswith("Leak"):
        oc.mismatches.append("%s.validate(df): an internal exception escaped: %s %s" % (vec["comp"].capitalize(), obs["kind"], obs.get("msg", "")[:100]))
    elif obs["kind"] != vec["expect"]["kind"] and obs["kind"] != "ok" and vec["expect"]["kind"] != "ok":
        # lazy=True is documented to raise SchemaErrors, lazy=False SchemaError
        if vec["comp"] == "column" and vec["schema"]["coerce"] and vec["opts"]["lazy"] and obs["kind"] == "SchemaError":
            oc.known = ["ColumnLazyCoercionRaisesSchemaError"]
        else:
            oc.mismatches.append("%s.validate(df, lazy=%s) raised %s, documented %s"
                                 % (vec["comp"].capitalize(), vec["opts"]["lazy"], obs["kind"], vec["expect"]["kind"]))
    oc.sig = _sig(vec, obs)
    return oc
