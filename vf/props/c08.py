"""C08 - one schema definition means the same thing on pandas and on polars."""
from __future__ import annotations

from collections import Counter
from typing import Any, Dict, List

from ..core import Outcome, Prop, Slice
from ..proj import norm

PHYS = {"Int64": "int64", "Float64": "float64", "String": "object", "Boolean": "bool"}


def sl(name):
    return Slice(name="Neutral." + name, module="MC_Neutral",
                 cfg={"quick": "mc/MC_Neutral_%s_quick.cfg" % name, "thorough": "mc/MC_Neutral_%s_thorough.cfg" % name},
                 observe=("vf.obs_neutral", "observe_neutral"), cap={"quick": 6000, "thorough": 0})


def nnull(v):
    return ("na", 0) if v[0] in ("na", "nan") else norm(v)


def against(exp: Dict[str, Any], o: Dict[str, Any], backend: str, nocols: bool = False) -> List[str]:
    out: List[str] = []
    ek = "ok" if exp["kind"] == "ok" else "raises"
    if o["kind"] != ek:
        out.append("%s: specification predicts %s, observed %s %s" % (backend, exp["kind"], o["kind"], o.get("msg", "")[:80]))
        return out
    if ek == "ok":
        a, b = exp["returned"], o["returned"]
        if backend == "polars" and nocols:
            # a polars frame without columns has no rows: the harness cannot build the 2-row input; verdict only
            return out
        la = [(norm(c["name"]), [nnull(x) for x in c["cells"]]) for c in a["cols"]]
        lb = [(norm(c["name"]), [nnull(x) for x in c["cells"]]) for c in b["cols"]]
        if la != lb:
            out.append("%s: parsed table %s differs from the predicted %s" % (backend, lb, la))
        da = [c["pd"].lower() for c in a["cols"]]            # nullable Int64 and int64 are one integer dtype on polars
        db = [PHYS.get(c["pd"], c["pd"]).lower() for c in b["cols"]]
        if da != db:
            out.append("%s: column dtypes %s, predicted %s" % (backend, db, da))
    else:
        want = Counter()
        for e in exp["errors"]:
            for c in e["cases"]:
                col = c[2] if len(c) > 2 else e["col"]
                want[(norm(col), norm(c[0]))] += 1
        got = Counter((norm(c[0]), norm(c[1])) for c in o["cells"])
        # the polars back end names the PATTERN of a regex column in its failure cases, not the matched column
        # (known finding PolarsRegexFailureNamesPattern): such an entry stands for any column at that row
        wild = {k for k in got if k[0][0] == "?"} if backend == "polars" else set()
        if wild:
            rows = {k[1] for k in wild}
            got2 = {k for k in got if k not in wild}
            want2 = {k for k in want if k[1] not in rows or k in got2}
            if got2 == want2 and all(any(w[1] == r for w in want) for r in rows):
                out.append("KNOWN:PolarsRegexFailureNamesPattern")
                return out
        if set(want) != set(got):
            out.append("%s: failing cells %s, predicted %s" % (backend, sorted(got), sorted(want)))
    return out


def compare(vec: Dict[str, Any], obs: Dict[str, Any]) -> Outcome:
    oc = Outcome()
    exp = vec["expect"]
    pdm = against(exp, obs["pandas"], "pandas")
    if pdm and vec.get("pandas_devs") and not against(vec["pandas_asis"], obs["pandas"], "pandas"):
        oc.known = list(vec["pandas_devs"])
        pdm = []
    oc.mismatches += pdm
    nocols = not vec["data"]["cols"]
    pm = against(exp, obs["polars"], "polars", nocols)
    if pm == ["KNOWN:PolarsRegexFailureNamesPattern"]:
        oc.known = oc.known + ["PolarsRegexFailureNamesPattern"]
        pm = []
    devs = vec.get("polars_devs") or []
    if pm and devs:
        # every deviation of the polars back end has an exact alternative prediction:
        #   PolarsMissingColumnLeak           an internal exception escapes (nothing else to compare)
        #   PolarsAddMissingDropsUndeclared   the prediction without the undeclared columns
        #   the others                        polars_asis (the schema polars actually evaluates)
        if "PolarsMissingColumnLeak" in devs and obs["polars"]["kind"].startswith("Leak"):
            oc.known = oc.known + ["PolarsMissingColumnLeak"]
            pm = []
        elif ("PolarsAddMissingDropsUndeclared" in devs and vec["schema"]["strict"] == "filter"
              and obs["polars"]["kind"] == "Leak:ColumnNotFoundError"):
            # the undeclared column was already dropped by add_missing_columns when strict='filter' drops it again
            oc.known = oc.known + ["PolarsAddMissingDropsUndeclared"]
            pm = []
        else:
            alt = vec["polars_asis"]
            drops = [norm(x) for x in (vec.get("polars_drops") or [])]
            if drops and alt["kind"] == "ok":
                alt = dict(alt, returned=dict(alt["returned"], cols=[c for c in alt["returned"]["cols"] if norm(c["name"]) not in drops]))
            if against(alt, obs["polars"], "polars", nocols) in ([], ["KNOWN:PolarsRegexFailureNamesPattern"]):
                oc.known = oc.known + [d for d in devs if d != "PolarsMissingColumnLeak"]
                pm = []
    oc.mismatches += pm
    # direct disagreement between the back ends (reported even where both miss the prediction the same way)
    p, q = obs["pandas"], obs["polars"]
    if (p["kind"] == "ok") != (q["kind"] == "ok"):
        oc.anomalies.append("verdicts differ")
    s = vec["schema"]
    oc.sig = "%s|%s|%s|%s" % (vec["slice"], exp["kind"], [[c["k"] for c in col["checks"]] for col in s["cols"]],
                              (s["strict"], s["ordered"], s["addmiss"]))
    return oc


PROP = Prop(
    id="C08",
    title="One schema definition means the same thing on pandas and on polars",
    slices=[sl("values"), sl("container")],
    compare=compare,
    rule=("MC_Neutral.tla restricts the ValidateFrame pipeline to the vocabulary both back ends support; the specification has "
          "one meaning for it, so agreement is by construction at the specification level. Every vector is concretized twice "
          "and replayed with lazy=True on pandas and on polars; each must match the single prediction on verdict, failing "
          "cells (column, row position, reason) and parsed table up to the null representation - hence they match each other."),
    assumptions=["default RangeIndex (row label = position)", "a frame without columns has no rows on polars: for such inputs only the verdict is compared", "polars null and NaN are both read as 'missing' when comparing parsed tables"],
    invariants=["ParsePostcondition", "one Sat / one Run for both back ends"],
)
