"""Property registry: id -> Prop."""
from __future__ import annotations

import importlib
from typing import Dict

from ..core import Prop

MODULES = ["c01", "c02", "c03", "c04", "c05", "c06", "c07", "c08", "c09", "c10", "c11", "c12", "c13", "c14", "c16", "c17", "c15", "c18", "c19", "c20"]


def registry() -> Dict[str, Prop]:
    out: Dict[str, Prop] = {}
    for m in MODULES:
        mod = importlib.import_module("vf.props." + m)
        p = mod.PROP
        out[p.id] = p
    return out
