"""C01 - validation verdict equals the declared schema semantics (pandas)."""
from __future__ import annotations

from typing import Any, Dict

from .. import compare as cmp
from ..core import Outcome, Prop
from . import slices
from .component import MULTIINDEX, compare_mi_c01


def signature(vec: Dict[str, Any]) -> str:
    s = vec["schema"]
    e = vec["expect"]
    active = []
    if isinstance(s.get("checks"), list):
        active += ["%s/%s" % (c["k"], c["ina"]) for c in s["checks"]]
    for k in ("dtype", "nullable", "unique", "strict", "ordered"):
        if k in s:
            active.append("%s=%s" % (k, s[k]))
    reasons = sorted({x["reason"] for x in e.get("errors", [])})
    return "%s|%s|%s|%s" % (vec["kind"], ",".join(active), e.get("sat"), ",".join(reasons))


def nontrivial(vec: Dict[str, Any]) -> bool:
    s = vec["schema"]
    d = vec["data"]
    n = len(d["cells"]) if "cells" in d else len(d.get("idx", []))
    constrained = bool(s.get("checks")) or s.get("dtype", "none") != "none" or s.get("unique") or not s.get("nullable", True) or s.get("columns")
    return bool(constrained) and n > 0


def compare(vec: Dict[str, Any], obs: Dict[str, Any]) -> Outcome:
    if vec.get("kind") == "multiindex":
        return compare_mi_c01(vec, obs)
    oc = Outcome()
    sat = bool(vec["expect"]["sat"])
    for mode in ("eager", "lazy"):
        o = obs[mode]
        accepted = o["kind"] == "ok"
        if accepted != sat:
            oc.mismatches.append("verdict(%s): specification says %s, pandera %s (%s)"
                                 % (mode, "accept" if sat else "reject", "accepted" if accepted else "rejected", o["kind"]))
        elif accepted and not vec.get("parsing"):
            exp = vec["data"]
            diff = (cmp.fields_equal if vec["kind"] in ("series",) else cmp.frames_equal)(exp, o["returned"])
            if diff:
                oc.mismatches.append("returned object differs from the input on success (%s): %s" % (mode, diff))
    if nontrivial(vec):
        oc.sig = signature(vec)
    return oc


PROP = Prop(
    id="C01",
    title="Validation verdict equals the declared schema semantics (pandas)",
    slices=[slices.SERIES] + slices.FRAME_SLICES + [MULTIINDEX],
    compare=compare,
    rule=("TLC enumerates every (schema, data) pair of the exhaustive slices and proves that the staged pipeline "
          "accepts exactly when the declarative meaning Sat holds; every emitted pair is replayed through the real "
          "validate() in eager and lazy mode. Non-trivial = at least one constraint declared and at least one row; "
          "distinct = distinct (schema shape, predicted verdict, predicted reason codes)."),
    assumptions=[
        "small scope: values, lengths and check arguments are those of the MC_* constants",
        "pinned corners of the shipped code are listed in spec/PINNED.md",
        "pandas itself (comparison, duplicated, str methods) is trusted as the data carrier",
    ],
    invariants=["VerdictEqualsSemantics", "IdentityOnSuccess", "BackendFacts"],
)
