"""C13 - every synthesised example satisfies the schema that produced it (code -> spec)."""
from __future__ import annotations

import json
import os
import re
import shutil
import subprocess
import sys
import tempfile
from typing import Any, Dict, List

from .. import tlc
from ..core import Outcome, Prop, Run, known_ids, write_replay


def _matches(f: Dict[str, Any], ev: Dict[str, Any], vec: Dict[str, Any], what: str, d: Dict[str, Any]) -> bool:
    m = f.get("match", {})
    if m.get("only_null_duplicates") and d.get("has_nonnull_duplicates"):
        return False
    if m.get("needs_null") and not d.get("has_null"):
        return False
    if "physical_dtype" in m and d.get("physical_dtype") not in m["physical_dtype"]:
        return False
    if m.get("bound_only"):
        # every value that violates the chain is one of the two excluded bounds of the FIRST (base) in_range_open
        c0 = vec["chain"][0]
        if c0["k"] not in ("in_range_open", "in_range_lo", "in_range_hi"):
            return False
        bounds = ({2 * c0["a"]} if c0["k"] != "in_range_hi" else set()) | ({2 * c0["b"]} if c0["k"] != "in_range_lo" else set())
        ok = set(vec.get("gen") or [])
        if not all(r in ok or r in bounds or r == -99 for r in d.get("ranks", [])):
            return False
    if m.get("shipped_bad") and "ranks" in d:
        # every drawn value is either correct or one the specification's shipped fold predicts
        allowed = set(vec.get("gen") or []) | set(vec.get("shipped_bad") or []) | {-99}
        if not set(d["ranks"]) <= allowed:
            return False
    if "kind" in m and ev["kind"] not in m["kind"]:
        return False
    if "what" in m and not re.search(m["what"], what):
        return False
    if m.get("shipped_bad") and not vec.get("shipped_bad"):
        return False
    if "chain_has" in m and not re.search(m["chain_has"], json.dumps(vec["chain"])):
        return False
    if "unique" in m and bool(ev.get("unique")) != m["unique"]:
        return False
    if "dtype" in m and ev.get("dtype") not in m["dtype"]:
        return False
    return True


def strategies(run: Run, only: Dict[str, Any] | None = None) -> None:
    tier = run.tier
    res = tlc.run_tlc("Strategy", "mc/MC_Strategy_%s.cfg" % tier, workers=8)
    if res.invariant_violated:
        raise tlc.MachineryError("Strategy.tla: %s violated" % res.invariant_violated)
    vecs = [v for v in res.vectors if v.get("kind") in ("strategy", "strategy_str")]
    if not vecs:
        raise tlc.MachineryError("Strategy.tla enumerated no schemas")
    run.states += res.distinct_states
    run.transitions += res.states_generated
    if only is not None:
        vecs = [only["vector"]]
    elif tier == "thorough":
        # 3-check chains: a seeded tenth (every 1- and 2-check chain is kept)
        import random

        rng = random.Random(run.seed)
        vecs = [v for v in vecs if v["kind"] == "strategy_str" or len(v["chain"]) < 3 or rng.random() < 0.10]
    tmp = tempfile.mkdtemp(prefix="vf-strategy-")
    known = known_ids("C13")
    try:
        spath, opath = os.path.join(tmp, "schemas.json"), os.path.join(tmp, "draws.json")
        with open(spath, "w") as fh:
            json.dump(vecs, fh)
        env = dict(os.environ)
        env.update({"PANDERA_VERIF": "1", "PYTHONHASHSEED": "0", "PYTHONWARNINGS": "ignore"})
        p = subprocess.run([sys.executable, "-m", "vf.rec_strategy", opath, spath, tier, str(run.seed)], cwd=str(tlc.ROOT), env=env,
                           stdout=subprocess.PIPE, stderr=subprocess.STDOUT, text=True, timeout=6000)
        if p.returncode != 0 or not os.path.exists(opath):
            raise tlc.MachineryError("strategy recorder failed:\n%s" % p.stdout[-3000:])
        recs = json.loads(open(opath).read())
        # the specification judges every numeric draw
        draws: List[Dict[str, Any]] = []
        where: List[Any] = []
        outcomes: Dict[str, int] = {}
        for r in recs:
            vec = vecs[r["idx"]]
            for ev in r["events"]:
                key = ev["outcome"].split(":")[0]
                outcomes[key] = outcomes.get(key, 0) + 1
                for d in ev["draws"]:
                    if "projection_error" in d:
                        raise tlc.MachineryError("cannot project a draw: %s" % d["projection_error"])
                    if "ranks" in d:
                        draws.append({"chain": vec["chain"], "nullable": ev["nullable"], "unique": ev["unique"], "size": ev["size"],
                                      "ranks": d["ranks"], "has_duplicates": d["has_duplicates"]})
                        where.append((vec, ev, d))
                        for oc in d.get("other_columns", []):
                            draws.append({"chain": vec["chain"], "nullable": ev["nullable"], "unique": ev["unique"], "size": ev["size"],
                                          "ranks": oc["ranks"], "has_duplicates": oc["has_duplicates"]})
                            where.append((vec, ev, dict(d, values=oc["values"], ranks=oc["ranks"], other_column=True, other_columns=[])))
        broken: Dict[int, List[str]] = {}
        if draws:
            dpath = os.path.join(tmp, "judge.json")
            with open(dpath, "w") as fh:
                json.dump(draws, fh)
            jr = tlc.run_tlc("Strategy", "mc/MC_Strategy_judge.cfg", workers=8, env={"DRAWS_FILE": dpath}, timeout=3000)
            run.states += jr.distinct_states
            run.transitions += jr.states_generated
            judged = sum(1 for v in jr.vectors if v.get("kind") == "judged")
            if judged != len(draws):
                raise tlc.MachineryError("TLC judged %d of %d draws" % (judged, len(draws)))
            for v in jr.vectors:
                if v.get("kind") == "broken":
                    broken[v["did"] - 1] = v["clauses"]
        problems: List[Any] = []
        for i, (vec, ev, d) in enumerate(where):
            if i in broken:
                problems.append((vec, ev, d, "the specification rejects the draw: %s" % ",".join(sorted(broken[i]))))
            elif d.get("other_column") or any((i + 1 + j) in broken for j in range(len(d.get("other_columns", [])))):
                continue        # the validator's verdict is about the whole frame: a broken sibling column explains it
            elif d["validator"] != "accepts":
                problems.append((vec, ev, d, "the specification accepts the values but the schema's own validate %s" % d["validator"]))
        # string chains and container-level facts: the implementation's validator
        for r in recs:
            vec = vecs[r["idx"]]
            for ev in r["events"]:
                for d in ev["draws"]:
                    if "ranks" not in d and d["validator"] != "accepts":
                        problems.append((vec, ev, d, "the schema's own validate %s the draw" % d["validator"]))
                    if ev["kind"] == "regex" and d.get("n_columns") != 2:
                        problems.append((vec, ev, d, "n_regex_columns=2 produced %s columns" % d.get("n_columns")))
                run.traces += len(ev["draws"])
                if ev["draws"]:
                    run.sigs.add("%s|%s|%s|%s|%s" % (ev["kind"], ev["dtype"], json.dumps(vec["chain"]), ev["nullable"], ev["unique"]))
                if ev["outcome"].startswith(("strategy_error", "draw_error")):
                    key = "no-draw:" + ev["outcome"]
                    run.anomalies[key] = run.anomalies.get(key, 0) + 1
        if os.environ.get("VF_DEBUG_DUMP"):
            with open(os.environ["VF_DEBUG_DUMP"], "w") as fh:
                json.dump([{"vec": v, "ev": {k: x for k, x in e.items() if k != "draws"}, "d": d, "what": w} for v, e, d, w in problems], fh)
        for vec, ev, d, what in problems:
            hit = [fid for fid, f in known.items() if _matches(f, ev, vec, what, d)]
            if hit:
                run.known_hits[hit[0]] = run.known_hits.get(hit[0], 0) + 1
                continue
            msg = "%s schema (%s) with checks %s nullable=%s unique=%s size=%s drew %s: %s" % (
                ev["kind"], ev["dtype"], _show(vec), ev["nullable"], ev["unique"], ev["size"], d.get("values"), what)
            path = write_replay("C13", {"property": "C13", "vector": vec, "event": {k: v for k, v in ev.items() if k != "draws"},
                                        "draw": d, "what": what}) if len(run.violations) < 25 else ""
            run.violations.append((msg, path))
        run.extra_cov["draw_outcomes"] = outcomes
        run.extra_cov["schemas"] = len(vecs)
        run.extra_cov["numeric_draws_judged_by_tlc"] = len(draws)
        if where:
            vec, ev, d = where[len(where) // 2]
            run.samples.append({"schema": {"kind": ev["kind"], "dtype": ev["dtype"], "checks": _show(vec), "nullable": ev["nullable"],
                                           "unique": ev["unique"], "size": ev["size"]}, "draw": d})
    finally:
        shutil.rmtree(tmp, ignore_errors=True)
    run.exhaustive = False


def _show(vec: Dict[str, Any]) -> str:
    if vec["kind"] == "strategy_str":
        return "[" + ", ".join(vec["chain"]) + "]"
    return "[" + ", ".join("%s(c%d%s)" % (c["k"], c["a"], ",c%d" % c["b"] if c["k"] in ("in_range", "in_range_open", "in_range_lo", "in_range_hi", "isin", "notin") else "")
                           for c in vec["chain"]) + "]"


def compare(vec: Dict[str, Any], obs: Dict[str, Any]) -> Outcome:      # no vector slices
    return Outcome()


def replay(payload: Dict[str, Any]) -> int:
    run = Run(prop=PROP, tier="quick", seed=0)
    strategies(run, only=payload)
    print(json.dumps({"schema": payload["event"], "violations_now": [m for m, _ in run.violations][:3]}, indent=1))
    return 1 if run.violations else 0


PROP = Prop(
    technique=("explicit TLA+ specification of strategy chaining (value-set transformers, design vs shipped fold) model-checked "
               "with TLC; schemas enumerated by TLC, draws of the real strategies recorded and judged by TLC (code->spec)"),
    id="C13",
    title="Every synthesised example satisfies the schema that produced it",
    slices=[],
    compare=compare,
    extra=strategies,
    replay=replay,
    rule=("Strategy.tla folds the checks of a field left to right as the code does (base strategy, then chained strategies) on "
          "value sets over an order-exact rank abstraction, with a design track (chained = filter) and a shipped track "
          "(eq_strategy replaces). TLC proves Sound and Complete for the design at every fold step, ShippedUnsoundOnlyByEq, and "
          "computes satisfiability, for every chain of <= MaxChain checks (2 quick, 3 thorough) over 15 numeric checks x "
          "nullable x unique x size in {1,3}; string chains (11 checks, length <= 2) are enumerated too. Each schema is built "
          "as SeriesSchema, Column in a DataFrameSchema with a unique Index, Index, regex column (n_regex_columns=2, every generated "
          "column judged), Column with its last check declared at dataframe level, SeriesSchema with an index schema, Column under a "
          "jointly unique MultiIndex, nullable SeriesSchema with a whole-series custom check; int64/float64/datetime64/timedelta64; examples are drawn from the real schema.strategy(size=n) with hypothesis (seeded, health checks off, "
          "wall-clock cap). Every numeric draw is sent back to TLC as ranks and judged against the meaning of the schema "
          "(checks, nullability, uniqueness, size); string draws and every draw additionally by the schema's own validate. A "
          "schema that yields no draw (Unsatisfiable, timeout, hypothesis error) is counted, not a violation. Distinct = "
          "distinct (container kind, dtype, chain, nullable, unique) with at least one draw."),
    assumptions=["hypothesis draws are a seeded sample", "string draws are judged by pandera's own validator (C01 binds it to the specification)"],
    invariants=["Sound", "Complete", "ShippedUnsoundOnlyByEq"],
)
