"""C07 - validation outcomes do not depend on thread interleaving."""
from __future__ import annotations

import json
import os
from typing import Any, Dict

from .. import tlc, tracecheck
from ..core import Outcome, Prop, Run, write_replay


def design_level(run: Run) -> None:
    """TLC on Threads.tla: the design (no sharing) satisfies the property for 3 threads; independent schema objects
    are interference-free in the shipped code; the shipped code sharing one schema object is refuted (known finding)."""
    for cfg, expect_ok in (("mc/MC_Threads_design.cfg", True), ("mc/MC_Threads_shipped_distinct.cfg", True),
                           ("mc/MC_Threads_shipped.cfg", False)):
        res = tlc.run_tlc("MC_Threads", cfg, workers=4)
        run.states += res.distinct_states
        run.transitions += res.states_generated
        if expect_ok and not res.ok:
            raise tlc.MachineryError("Threads.tla: %s violates %s" % (cfg, res.invariant_violated))
        if not expect_ok and res.ok:
            raise tlc.MachineryError("Threads.tla: the shipped mechanism is expected to be refuted by TLC (%s)" % cfg)
        run.slices.append({"slice": cfg, "module": "Threads", "states": res.distinct_states,
                           "result": "holds" if res.ok else "refuted: %s" % res.invariant_violated})


def schedules(run: Run) -> None:
    design_level(run)
    runs, path = tracecheck.record("vf.sched", [str(run.seed), run.tier], timeout=3000)
    # the trace file TLC reads: one trace (event list) per scheduled execution
    tpath = path + ".traces.json"
    with open(tpath, "w") as fh:
        json.dump([r["events"] for r in runs], fh)
    try:
        res = tracecheck.validate("Trace_Threads", "mc/Trace_Threads.cfg", tpath, workers=8)
    finally:
        tracecheck.cleanup(path)
    run.traces += len(runs)
    run.states += res["states"]
    run.transitions += res["transitions"]
    verdicts = {v["tid"]: v for v in res["vectors"] if v.get("kind") == "verdict"}
    stats = {"schedules": len(runs), "interfered": 0, "accepted": res["rejected"] is None}
    if res["rejected"]:
        rj = res["rejected"]
        r = runs[rj["tid"] - 1] if rj.get("tid") else None
        p = write_replay("C07", {"property": "C07", "kind": "trace", "rejected": rj,
                                 "scenario": r and r["scenario"], "schedule": r and [r["first"], r["switch_at"]],
                                 "event": r and rj.get("l") and r["events"][rj["l"] - 1], "trace": r and r["events"]})
        what = ("schemas that are meant to be independent share a component object" if rj["property"] == "IndependentSchemasShareNothing"
                else "a shared-state access that the specification of the validation pipeline does not allow")
        run.violations.append(("scheduled execution is not a behaviour of Trace_Threads.tla (%s): %s, scenario %s, event %s"
                               % (rj["property"], what, r and r["scenario"], r and rj.get("l") and r["events"][rj["l"] - 1]), p))
        return
    for i, r in enumerate(runs, start=1):
        v = verdicts.get(i)
        if v is None:
            raise tlc.MachineryError("no verdict from TLC for scheduled execution %d" % i)
        differs = [k for k, (o, s) in enumerate(zip(r["outcomes"], r["solo"])) if o != s]
        bad_state = not v["final_ok"]
        sig = "%s|%s|%s" % (r["scenario"], r["outcomes"], bad_state)
        run.sigs.add(sig)
        if not differs and not bad_state:
            continue
        stats["interfered"] += 1
        names = ["A", "B", "C"]
        explained = r["relation"] == "same" and all(names[k] in v["tainted"] for k in differs)
        if explained:
            kf = "GlobalContextConfig" if r["scenario"].startswith("polars") else "MutateRestoreComponents"
            run.known_hits[kf] = run.known_hits.get(kf, 0) + 1
        else:
            p = write_replay("C07", {"property": "C07", "scenario": r["scenario"], "schedule": [r["first"], r["switch_at"]],
                                     "solo": r["solo"], "outcomes": r["outcomes"], "verdict": v, "trace": r["events"]})
            run.violations.append(("scenario %s, schedule first=%s switch_at=%s: outcomes %s differ from solo %s / state restored=%s, "
                                   "and the specification does not explain it (tainted=%s)"
                                   % (r["scenario"], r["first"], r["switch_at"], r["outcomes"], r["solo"], v["final_ok"], v["tainted"]), p))
    run.extra_cov["schedules"] = stats
    if runs:
        run.samples.append({"scenario": runs[len(runs) // 2]["scenario"], "schedule": [runs[len(runs) // 2]["first"], runs[len(runs) // 2]["switch_at"]],
                            "events": runs[len(runs) // 2]["events"][:10]})


def compare(vec: Dict[str, Any], obs: Dict[str, Any]) -> Outcome:      # no vector slices
    return Outcome()


PROP = Prop(
    technique='explicit TLA+ specification model-checked with TLC (all interleavings); deterministic scheduler executions of the implementation validated by TLC against the trace specification (code->spec) and compared with solo runs',
    id="C07",
    title="Validation outcomes do not depend on thread interleaving",
    slices=[],
    compare=compare,
    extra=schedules,
    rule=("Threads.tla: TLC explores every interleaving of 3 validating threads at the granularity of shared accesses and "
          "proves OutcomeSolo and Restored for the design (no sharing) and for independent schema objects in the shipped "
          "code, and refutes the shipped save/override/restore on one shared schema object (known finding). Binding: a "
          "deterministic scheduler runs 2 concurrent validations (same pandas schema, independent pandas schemas, schemas "
          "derived from one another, frame-level dtype, polars DataFrame+LazyFrame) preempting at EVERY access to the shared "
          "cells (component coerce/dtype, context configuration) under all schedules with <=2 context switches (strided in "
          "the quick tier, plus random deeper ones in thorough); every recorded execution is validated by TLC against "
          "Trace_Threads.tla, outcomes are compared with the solo runs, and a difference is accepted only if the "
          "specification taints the thread. Distinct = distinct (scenario, outcomes, state restored)."),
    assumptions=["preemption at shared-state accesses inside pandera (the granularity of the specification's actions); "
                 "native code in pandas/polars is atomic"],
    invariants=["OutcomeSolo", "Restored", "NotStuck", "IndependentSchemasShareNothing"],
)
