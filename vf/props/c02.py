"""C02 - lazy and eager validation agree; the error report is exact."""
from __future__ import annotations

from collections import Counter
from typing import Any, Dict

from .. import compare as cmp
from ..core import Outcome, Prop
from ..proj import norm
from . import slices


def compare(vec: Dict[str, Any], obs: Dict[str, Any]) -> Outcome:
    oc = Outcome()
    exp = vec["expect"]["errors"]
    eager, lazy = obs["eager"], obs["lazy"]
    e_raises = eager["kind"] != "ok"
    l_raises = lazy["kind"] != "ok"
    if e_raises != l_raises:
        oc.mismatches.append("lazy raises=%s but eager raises=%s (%s / %s)" % (l_raises, e_raises, lazy["kind"], eager["kind"]))
        return oc
    if not l_raises:
        if exp:
            oc.mismatches.append("specification predicts errors %s, none raised" % [e["reason"] for e in exp])
        return oc
    if lazy["kind"] != "SchemaErrors" or eager["kind"] != "SchemaError":
        oc.mismatches.append("error classes: eager %s, lazy %s" % (eager["kind"], lazy["kind"]))
        return oc
    if "report_error" in lazy:
        oc.mismatches.append("lazy report could not be read: %s" % lazy["report_error"])
        return oc
    col = vec["kind"] != "series"
    d = cmp.errs_equal(exp, lazy["errors"], col=False)
    if d:
        oc.mismatches.append("lazy " + d)
    if not cmp.err_in(eager["errors"][0], lazy["errors"]):
        oc.mismatches.append("eager error %s is not among the lazy errors" % (cmp.nerr(eager["errors"][0], False),))
    if exp and cmp.nerr(eager["errors"][0], False) != cmp.nerr(exp[0], False) and not vec.get("unordered"):
        # the specification also predicts WHICH error the eager run raises: the first in pipeline order
        if not cmp.err_in(eager["errors"][0], exp):
            oc.mismatches.append("eager error %s is not predicted" % (cmp.nerr(eager["errors"][0], False),))
    # consolidated report: one row per failing cell, one scalar row per violated frame-level constraint
    want = Counter()
    for e in exp:
        if e["scalar"]:
            want[(e["ci"], "scalar", ("na", 0))] += 1
        for c in e["cases"]:
            want[(e["ci"], norm(c[1]), norm(c[0]))] += 1
    got = Counter()
    for r in lazy["report"]["rows"]:
        if norm(r["index"]) == ("na", 0):
            got[(r["cn"], "scalar", ("na", 0))] += 1
        else:
            got[(r["cn"], norm(r["case"]), norm(r["index"]))] += 1
    if want != got:
        oc.mismatches.append("failure_cases rows differ: missing=%s extra=%s"
                             % (list((want - got).elements())[:3], list((got - want).elements())[:3]))
    wc = Counter(e["reason"] for e in exp)
    if dict(wc) != lazy["report"]["counts"]:
        oc.mismatches.append("error_counts %s != predicted %s" % (lazy["report"]["counts"], dict(wc)))
    if exp:
        oc.sig = "%s|%s|%d" % (vec["kind"], ",".join(sorted("%s:%s:%d" % (e["reason"], e["ci"], len(e["cases"])) for e in exp)),
                               len(vec["data"].get("cells", vec["data"].get("idx", []))))
    return oc


PROP = Prop(
    id="C02",
    title="Lazy and eager validation agree; the error report is exact",
    slices=[slices.SERIES],
    compare=compare,
    rule=("Every vector of the exhaustive slices is run eagerly and lazily; TLC predicts the full list of errors in "
          "pipeline order with their failure cases (ReportExact, CasesAreViolations). Non-trivial = the specification "
          "predicts at least one error; distinct = distinct multisets of (reason, check, number of cases) x length."),
    assumptions=[
        "n_failure_cases=None for report exactness (truncation is C19)",
        "failure cases are compared as multisets of (index label, value); messages are never compared",
    ],
    invariants=["ReportExact", "CasesAreViolations"],
)
