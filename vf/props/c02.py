"""C02 - lazy and eager validation agree; the error report is exact."""
from __future__ import annotations

from collections import Counter
from typing import Any, Dict, List

from .. import compare as cmp
from ..core import Outcome, Prop
from ..proj import norm
from . import slices
from ..core import Slice

FRAME_ROWS_REPORT = Slice(name="FrameRows.report", module="FrameRows",
                          cfg={"quick": "mc/MC_FrameRows_quick.cfg", "thorough": "mc/MC_FrameRows_thorough.cfg"},
                          observe=("vf.obs_rows", "observe_rows"), cap={"quick": 8000, "thorough": 80000},
                          # the shipped selection is the specification's (no label de-duplication at work), and the rows are
                          # in their original order (a random sample permutes them: "all but the first duplicate" moves)
                          select=lambda v: v.get("mode") == "subsample" and v.get("backend") == "pandas" and not v.get("devs")
                          and v.get("ix") != "multits" and v.get("sel_same") and v.get("head") != -2)


def against(exp: List[Dict[str, Any]], eager: Dict[str, Any], lazy: Dict[str, Any], with_col: bool) -> List[str]:
    """compare the observed eager error / lazy report with one predicted error list"""
    out: List[str] = []
    d = cmp.errs_equal(exp, lazy["errors"], col=False)
    if d:
        out.append("lazy " + d)
    if not cmp.err_in(eager["errors"][0], lazy["errors"]):
        out.append("eager error %s is not among the lazy errors" % (cmp.nerr(eager["errors"][0], False),))
    if exp and not cmp.err_in(eager["errors"][0], exp):
        out.append("eager error %s is not predicted" % (cmp.nerr(eager["errors"][0], False),))
    # consolidated report: one row per failing cell, one scalar row per violated frame-level constraint
    want = Counter()
    for e in exp:
        col = norm(e["col"]) if with_col and "col" in e and e.get("ctx") != "Index" else None
        if e["scalar"]:
            want[(e["ci"], "scalar", ("na", 0), None)] += 1
        for c in e["cases"]:
            ccol = norm(c[2]) if with_col and len(c) > 2 else col
            want[(e["ci"], norm(c[1]), norm(c[0]), ccol)] += 1
    got = Counter()
    for r in lazy["report"]["rows"]:
        col = norm(r["column"]) if with_col and r["ctx"] != "Index" else None
        if norm(r["index"]) == ("na", 0):
            got[(r["cn"], "scalar", ("na", 0), None)] += 1
        else:
            got[(r["cn"], norm(r["case"]), norm(r["index"]), col)] += 1
    if want != got:
        out.append("failure_cases rows differ: missing=%s extra=%s"
                   % (list((want - got).elements())[:3], list((got - want).elements())[:3]))
    wc = Counter(e["reason"] for e in exp)
    if dict(wc) != lazy["report"]["counts"]:
        out.append("error_counts %s != predicted %s" % (lazy["report"]["counts"], dict(wc)))
    return out


STAGES = ["nullable", "unique", "gt0", "le1", "joint", "rowcheck"]


def compare_rows(vec: Dict[str, Any], obs: Dict[str, Any]) -> Outcome:
    """FrameRows.tla (pandas, head/tail/sample selections, every index / column labelling): the lazy report names, per
    constraint, exactly the selected rows that violate it (a repeated label stands for every row carrying it)"""
    oc = Outcome()
    if vec["backend"] != "pandas" or vec.get("devs") or "report" not in obs:
        return oc
    labels = _labels(vec)
    want = {}
    for st, rows in zip(STAGES, vec["failing"]):
        if rows:
            # rows that share a label with a failing row are indistinguishable in a report keyed by label
            want[st] = sorted(i + 1 for i, l in enumerate(labels) if l in {labels[r - 1] for r in rows})
    got = {k: v for k, v in obs["report"].items()}
    if want != got:
        oc.mismatches.append("lazy report of head=%s tail=%s on a=%s b=%s (index/column labelling %s): rows named per constraint %s, "
                             "specification %s" % (vec["head"], vec["tail"], vec["a"], vec["b"], vec.get("ix"), got, want))
    s = vec["schema"]
    oc.sig = "rowsreport|%s|%s|%s|%s" % (sorted(s.items()), vec.get("ix"), sorted(want), len(vec["a"]))
    return oc


def _labels(vec):
    n = len(vec["a"])
    ixk = vec.get("ix", "unique")
    return [((i + 2) // 2 if ixk in ("dup", "multidup") else i + 11) for i in range(n)]


def compare_run(vec: Dict[str, Any], obs: Dict[str, Any]) -> Outcome:
    """parse slices: the vector is the lazy run; observed lazy -> eager -> lazy on one schema object"""
    oc = Outcome()
    exp = vec["expect"]
    lazy, eager, lazy2 = obs["lazy"], obs["eager"], obs["lazy2"]
    l_raises, e_raises = lazy["kind"] != "ok", eager["kind"] != "ok"
    if l_raises != e_raises:
        oc.mismatches.append("lazy raises=%s but eager raises=%s (%s / %s)" % (l_raises, e_raises, lazy["kind"], eager["kind"]))
        return oc
    if (exp["kind"] != "ok") != l_raises:
        oc.mismatches.append("specification predicts %s, lazy run %s" % (exp["kind"], lazy["kind"]))
        return oc
    if lazy2["kind"] != lazy["kind"]:
        oc.mismatches.append("second lazy run on the same schema object differs: %s then %s" % (lazy["kind"], lazy2["kind"]))
    if not l_raises:
        return oc
    if lazy["kind"] != "SchemaErrors" or eager["kind"] != "SchemaError":
        oc.mismatches.append("error classes: eager %s, lazy %s" % (eager["kind"], lazy["kind"]))
        return oc
    if "report_error" in lazy:
        oc.mismatches.append("lazy report could not be read: %s" % lazy["report_error"])
        return oc
    d = cmp.errs_equal(exp["errors"], lazy["errors"], col=False)
    if d and vec.get("devs") and "asis" in vec and not cmp.errs_equal(vec["asis"]["errors"], lazy["errors"], col=False):
        oc.known = list(vec["devs"])      # the shipped code is predicted to deviate exactly like this
        exp = vec["asis"]
        d = None
    if d:
        oc.mismatches.append("lazy " + d)
    if not cmp.err_in(eager["errors"][0], lazy["errors"]):
        oc.mismatches.append("eager error %s is not among the lazy errors %s"
                             % (cmp.nerr(eager["errors"][0], False), [e["reason"] for e in lazy["errors"]]))
    if "errors" in lazy2 and cmp.errs_equal(lazy["errors"], lazy2["errors"]):
        oc.mismatches.append("second lazy run on the same schema object reports different errors")
    wc = Counter(e["reason"] for e in exp["errors"])
    if dict(wc) != lazy["report"]["counts"]:
        oc.mismatches.append("error_counts %s != predicted %s" % (lazy["report"]["counts"], dict(wc)))
    oc.sig = "%s|%s" % (vec["kind"], ",".join(sorted("%s:%s:%d" % (e["reason"], e["ci"], len(e["cases"])) for e in exp["errors"])))
    return oc


def compare(vec: Dict[str, Any], obs: Dict[str, Any]) -> Outcome:
    if vec["kind"] == "rows":
        return compare_rows(vec, obs)
    if vec["kind"].endswith("_run"):
        return compare_run(vec, obs)
    oc = Outcome()
    exp = vec["expect"]["errors"]
    eager, lazy = obs["eager"], obs["lazy"]
    e_raises = eager["kind"] != "ok"
    l_raises = lazy["kind"] != "ok"
    if e_raises != l_raises:
        oc.mismatches.append("lazy raises=%s but eager raises=%s (%s / %s)" % (l_raises, e_raises, lazy["kind"], eager["kind"]))
        return oc
    if not l_raises:
        if exp:
            oc.mismatches.append("specification predicts errors %s, none raised" % [e["reason"] for e in exp])
        return oc
    if lazy["kind"] != "SchemaErrors" or eager["kind"] != "SchemaError":
        oc.mismatches.append("error classes: eager %s, lazy %s" % (eager["kind"], lazy["kind"]))
        return oc
    if "report_error" in lazy:
        oc.mismatches.append("lazy report could not be read: %s" % lazy["report_error"])
        return oc
    with_col = vec["kind"] != "series"
    mism = against(exp, eager, lazy, with_col)
    devs = vec["expect"].get("devs") or []
    if mism and devs:
        # the shipped code is predicted to deviate here: accept exactly the deviating prediction
        m2 = against(vec["expect"]["errors_asis"], eager, lazy, with_col)
        if not m2:
            oc.known = list(devs)
            mism = []
    oc.mismatches = mism
    if exp:
        oc.sig = "%s|%s|%d" % (vec["kind"], ",".join(sorted("%s:%s:%d" % (e["reason"], e["ci"], len(e["cases"])) for e in exp)),
                               len(vec["data"].get("cells", vec["data"].get("idx", []))))
    return oc


PROP = Prop(
    id="C02",
    title="Lazy and eager validation agree; the error report is exact",
    slices=[slices.SERIES] + slices.FRAME_SLICES + [slices.SERIES_PARSE_BOTH, slices.FRAME_PARSE_BOTH, FRAME_ROWS_REPORT],
    compare=compare,
    rule=("Every vector of the exhaustive slices is run eagerly and lazily; TLC predicts the full list of errors in "
          "pipeline order with their failure cases (ReportExact, CasesAreViolations, ReportIsFunctional). Non-trivial = "
          "the specification predicts at least one error; distinct = distinct multisets of (reason, check, number of "
          "cases) x length."),
    assumptions=[
        "n_failure_cases=None for report exactness (truncation is C19)",
        "failure cases are compared as multisets of (column, index label, value); messages are never compared",
    ],
    invariants=["ReportExact", "CasesAreViolations", "ReportIsFunctional", "IdealAndAsIsAgreeOnVerdict"],
)
