"""C05 - schemas are observationally immutable: no operation leaves hidden state."""
from __future__ import annotations

from typing import Any, Dict, List

from ..core import Outcome, Prop, Slice

HISTORY = Slice(
    name="History",
    module="MC_History",
    cfg={"quick": "mc/MC_History_quick.cfg", "thorough": "mc/MC_History_thorough.cfg"},
    observe=("vf.obs_history", "observe_history"),
    cap={"quick": 4000, "thorough": 60000},
)


def opname(op: Dict[str, Any]) -> str:
    if op["op"] in ("validate", "column_validate"):
        return "%s(%s,%s%s)" % (op["op"], op["frame"], "lazy" if op["lazy"] else "eager",
                                (",fault@%d:%s" % (op["fault"], op["exc"])) if op["fault"] else "")
    if op["op"] == "validate_typed":
        return "validate_typed(%s,%s)" % ("good" if op["good"] else "bad", "lazy" if op["lazy"] else "eager")
    if op["op"] == "serialise":
        return "to_" + op["fmt"]
    return op["op"]


def against(vec, exp, got, fields) -> List[str]:
    out: List[str] = []
    for i, (e, g) in enumerate(zip(exp, got)):
        for f in fields:
            ev, gv = e[f], g[f]
            if f == "hidden":
                ev, gv = sorted(ev), sorted(gv)
            if ev != gv:
                out.append("after step %d %s: %s is %s, specification says %s (history: %s)"
                           % (i + 1, opname(vec["hist"][i]), f, gv, ev, " ; ".join(opname(o) for o in vec["hist"][: i + 1])))
                return out
    return out


def make_compare(fields, extra_flags, only_fault: bool):
    def compare(vec: Dict[str, Any], obs: Dict[str, Any]) -> Outcome:
        oc = Outcome()
        got = obs["obs"]
        mism = against(vec, vec["expect"], got, fields)
        for i, g in enumerate(got):
            for flag in extra_flags:
                if not g.get(flag, True):
                    mism.append("after step %d %s: %s is false" % (i + 1, opname(vec["hist"][i]), flag))
        if mism and vec.get("devs"):
            if not against(vec, vec["asis"], got, fields) and not any(not g.get(f, True) for g in got for f in extra_flags):
                oc.known = _which(vec, got)
                mism = []
        oc.mismatches = mism
        has_fault = any(o.get("fault") for o in vec["hist"])
        if (has_fault or not only_fault):
            oc.sig = " ; ".join(opname(o) for o in vec["hist"])
        return oc
    return compare


def _which(vec, got) -> List[str]:
    names = set()
    for g in got:
        for h in g["hidden"]:
            if h.endswith("rx.name") or h == "RX.name":
                names.add("RegexNameNotRestoredOnError")
            if h == "S.stats.options":
                names.add("StatisticsOptionsLeak")
    return sorted(names) or sorted(vec["devs"])


PROP = Prop(
    id="C05",
    title="Schemas are observationally immutable: no operation leaves hidden state",
    slices=[HISTORY],
    compare=make_compare(("outcome", "hidden"), (), only_fault=False),
    rule=("History.tla models every operation on a long-lived DataFrameSchema / stand-alone regex Column by its real "
          "mechanics (save/override/restore, rename/restore, in-place statistics extraction); TLC explores every history "
          "up to the bound and proves NoHiddenState and VerdictStable for the design. Every history is replayed on real "
          "schema objects; after each step a structural fingerprint of the object graph (attributes, checks incl. "
          "statistics, dtypes, components) is compared with the one taken at construction and the verdict with the "
          "predicted one. Distinct = distinct operation sequences."),
    assumptions=["fingerprint paths outside the modelled attributes are reported as 'other:<path>' and never predicted, i.e. always a violation"],
    invariants=["NoHiddenState", "VerdictStable", "DocumentedChannel"],
)
