"""C19 - check options do only what they document."""
from __future__ import annotations

from collections import Counter
from typing import Any, Dict

from ..core import Outcome, Prop, Slice
from ..proj import norm


def sl(name):
    return Slice(name="Checks." + name, module="MC_Checks",
                 cfg={"quick": "mc/MC_Checks_%s_quick.cfg" % name, "thorough": "mc/MC_Checks_%s_thorough.cfg" % name},
                 observe=("vf.obs_checks", "observe_check"), cap={"quick": 6000, "thorough": 0})


def compare_groupby(vec: Dict[str, Any], obs: Dict[str, Any]) -> Outcome:
    oc = Outcome()
    e = vec["expect"]
    for how, rec in obs.items():
        tag = "groupby(%s, groups=%s, %s grouping column)" % (how, [g[1] for g in vec["groups"]], vec["data"]["gkind"])
        if how == "callable" and vec["data"]["gkind"] == "category" and not e["error"]:
            pass   # same prediction: a callable groupby is handed to pandas as is
        if e["error"]:
            if rec["validates"] is not False or "CHECK_ERROR" not in rec.get("reasons", []):
                oc.mismatches.append("%s: a requested group that does not exist must be reported as a failed check, got %s %s"
                                     % (tag, rec["validates"], rec.get("reasons")))
            continue
        if rec["validates"] != e["passed"]:
            oc.mismatches.append("%s: validate %s, specification says %s" % (tag, rec["validates"], e["passed"]))
        want = sorted((norm(k), tuple(norm(x) for x in vals)) for k, vals in e["groups"])
        if len(rec["groups"]) != 1:
            oc.mismatches.append("%s: the function was called %d times" % (tag, len(rec["groups"])))
            continue
        got = sorted((norm(k), tuple(norm(x) for x in vals)) for k, vals in rec["groups"][0])
        if want != got:
            oc.mismatches.append("%s: the function was handed groups %s, specification says %s" % (tag, rec["groups"][0], e["groups"]))
    oc.sig = "groupby|%s|%s|%s|%s" % (vec["data"]["gkind"], [g[1] for g in vec["groups"]], e.get("error"), len(vec["data"]["v"]))
    return oc


TABLE = Slice(name="TableChecks", module="TableChecks",
              cfg={"quick": "mc/MC_TableChecks_quick.cfg", "thorough": "mc/MC_TableChecks_thorough.cfg"},
              observe=("vf.obs_tablechecks", "observe_tablecheck"), cap={"quick": 0, "thorough": 30000})


def compare_table(vec: Dict[str, Any], obs: Dict[str, Any]) -> Outcome:
    """dataframe-level checks (TableChecks.tla)"""
    oc = Outcome()
    exp = vec["expect"]
    who = "dataframe-level check %s (answers with a %s) ignore_na=%s n_failure_cases=%s raise_warning=%s on x=%s y=%s" % (
        vec["pred"], exp["out"], vec["ina"], vec["nfc"] or None, vec["warn"], vec["x"], vec["y"])
    if "direct_error" in obs:
        oc.mismatches.append("%s: Check(...)(df) raised %s" % (who, obs["direct_error"]))
    elif obs["passed"] != exp["passed"]:
        oc.mismatches.append("%s: check_passed=%s, specification %s" % (who, obs["passed"], exp["passed"]))
    want = "ok" if (exp["passed"] or vec["warn"]) else None
    for mode, err in (("eager", "SchemaError"), ("lazy", "SchemaErrors")):
        w = want or err
        if obs.get(mode) != w:
            oc.mismatches.append("%s: DataFrameSchema.validate(lazy=%s) %s, specification %s" % (who, mode == "lazy", obs.get(mode), w))
        elif w == "ok" and not obs.get(mode + "_same", True):
            oc.mismatches.append("%s: validate returned a changed frame" % who)
    if obs.get("check_error"):
        oc.mismatches.append("%s with index labelling %s: the failed check is reported as an ERROR of the check function (%s) "
                             "although the function does not raise" % (who, vec.get("ix"), obs.get("check_error_msg")))
    if vec["warn"] and (obs.get("warned", 0) > 0) != (not exp["passed"]):
        oc.mismatches.append("%s: warned=%s, specification: warn exactly when the check fails (%s)" % (who, obs.get("warned"), not exp["passed"]))
    oc.sig = "table|%s|%s|%s|%s|%s|%d|%s" % (vec["pred"], vec["ina"], vec["nfc"], vec["warn"], exp["passed"], len(vec["x"]), vec.get("ix"))
    return oc


def compare(vec: Dict[str, Any], obs: Dict[str, Any]) -> Outcome:
    if vec.get("kind") == "tablecheck":
        return compare_table(vec, obs)
    if vec["kind"] == "check_groupby":
        return compare_groupby(vec, obs)
    oc = Outcome()
    e = vec["expect"]
    c = vec["check"]
    tag = "%s%s(ew=%s,ina=%s,nfc=%s,warn=%s)" % (c["k"], c["a"][0] if c["k"] == "custom" else "", c["ew"], c["ina"], c["nfc"], c["warn"])
    if "direct_error" in obs:
        oc.mismatches.append("%s: applying the check raised %s" % (tag, obs["direct_error"]))
        return oc
    if obs["passed"] != e["passed"]:
        oc.mismatches.append("%s: check_passed is %s, specification says %s" % (tag, obs["passed"], e["passed"]))
    want = [(norm(x[0]), norm(x[1])) for x in e["cases"]]
    got = [(norm(x[0]), norm(x[1])) for x in obs["cases"]]
    if want != got:
        oc.mismatches.append("%s: failure cases %s, specification says %s" % (tag, obs["cases"], e["cases"]))
    if c["k"] == "custom":
        for which in ("args", "args_schema"):
            if Counter(map(norm, e["args"])) != Counter(norm(x) for x in obs[which]):
                oc.mismatches.append("%s: the function was shown %s, specification says %s" % (tag, obs[which], e["args"]))
                break
    if obs["validates"] != e["validates"]:
        oc.mismatches.append("%s: schema.validate %s, specification says %s" % (tag, obs["validates"], e["validates"]))
    if obs["warns"] != e["warns"]:
        oc.mismatches.append("%s: warning emitted=%s, specification says %s" % (tag, obs["warns"], e["warns"]))
    if "schema_cases" in obs and not e["validates"]:
        got2 = [(norm(x[0]), norm(x[1])) for x in obs["schema_cases"]]
        if got2 != want:
            oc.mismatches.append("%s: failure cases reported by validate %s, specification says %s" % (tag, obs["schema_cases"], e["cases"]))
    n = len(vec["data"]["cells"])
    if n:
        oc.sig = "%s|%s|alias=%s|nulls=%s|passed=%s|ncases=%d" % (tag, vec["slice"], vec.get("alias"),
                                                                 any(x[0] == "na" for x in vec["data"]["cells"]), e["passed"], len(e["cases"]))
    return oc


PROP = Prop(
    id="C19",
    title="Check options do only what they document",
    slices=[TABLE, sl("custom"), sl("builtin"),
            Slice(name="Checks.groupby", module="MC_Checks",
                  cfg={"quick": "mc/MC_Checks_groupby_quick.cfg", "thorough": "mc/MC_Checks_groupby_thorough.cfg"},
                  observe=("vf.obs_checks", "observe_check_groupby"), cap={"quick": 3000, "thorough": 0})],
    compare=compare,
    rule=("MC_Checks.tla runs the check back end stage by stage (preprocess / apply / postprocess / report) for a family of "
          "named predicates x element_wise x ignore_na x n_failure_cases x raise_warning, and for every built-in under its "
          "canonical name and its alias, over all Series of <=2 (thorough 3) cells with nulls and non-default index; TLC "
          "proves the relations between option variants (ElementwiseIsMap, IgnoreNaNeverShowsNulls, "
          "NotIgnoringShowsEverything, TruncationKeepsVerdict, WarningNeverRaises). Each vector is replayed through "
          "Check(...)(data) and schema.validate; the Python predicates log the arguments they receive. Distinct = distinct "
          "(check, options, alias, nulls present, verdict, number of cases)."),
    assumptions=["predicates are total on numbers and answer False for a null they are shown (except `true`)"],
    invariants=["GroupsAreExact", "MachineIsFunction", "ElementwiseIsMap", "IgnoreNaNeverShowsNulls", "IgnoreNaNeverFailsOnNulls",
                "NotIgnoringShowsEverything", "TruncationKeepsVerdict", "WarningNeverRaises"],
)
