"""Slices (TLA+ module + config + observer) shared by several properties."""
from __future__ import annotations

from ..core import Slice

SERIES = Slice(
    name="Series",
    module="MC_Series",
    cfg={"quick": "mc/MC_Series_quick.cfg", "thorough": "mc/MC_Series_thorough.cfg"},
    observe=("vf.obs_pandas", "observe_series"),
    cap={"quick": 12000, "thorough": 0},
)
