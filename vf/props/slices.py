"""Slices (TLA+ module + config + observer) shared by several properties."""
from __future__ import annotations

from ..core import Slice

SERIES = Slice(
    name="Series",
    module="MC_Series",
    cfg={"quick": "mc/MC_Series_quick.cfg", "thorough": "mc/MC_Series_thorough.cfg"},
    observe=("vf.obs_pandas", "observe_series"),
    cap={"quick": 12000, "thorough": 0},
)

SERIES_PARSE = Slice(
    name="SeriesParse",
    module="MC_Series",
    cfg={"quick": "mc/MC_SeriesParse_quick.cfg", "thorough": "mc/MC_SeriesParse_thorough.cfg"},
    observe=("vf.obs_pandas", "observe_series_run"),
    cap={"quick": 12000, "thorough": 150000},
)


def frame_slice(name: str, cap_quick: int = 6000) -> Slice:
    return Slice(
        name="Frame." + name,
        module="MC_Frame",
        cfg={"quick": "mc/MC_Frame_%s_quick.cfg" % name, "thorough": "mc/MC_Frame_%s_thorough.cfg" % name},
        observe=("vf.obs_pandas", "observe_frame"),
        cap={"quick": cap_quick, "thorough": 0},
    )


CONTAINER = frame_slice("container")
COLUMNS = frame_slice("columns")
JOINT = frame_slice("joint")
INDEX = frame_slice("index")
FRAME_SLICES = [CONTAINER, COLUMNS, JOINT, INDEX]

FRAME_PARSE = Slice(
    name="Frame.parse",
    module="MC_Frame",
    cfg={"quick": "mc/MC_Frame_parse_quick.cfg", "thorough": "mc/MC_Frame_parse_thorough.cfg"},
    observe=("vf.obs_pandas", "observe_frame_run"),
    cap={"quick": 12000, "thorough": 150000},
)

FRAME_PARSE_BOTH = Slice(
    name="Frame.parse.both",
    module="MC_Frame",
    cfg={"quick": "mc/MC_Frame_parse_quick.cfg", "thorough": "mc/MC_Frame_parse_thorough.cfg"},
    observe=("vf.obs_pandas", "observe_frame_both"),
    cap={"quick": 8000, "thorough": 100000},
    select=lambda v: v["opts"]["lazy"] and not v["opts"]["inplace"],
)
SERIES_PARSE_BOTH = Slice(
    name="SeriesParse.both",
    module="MC_Series",
    cfg={"quick": "mc/MC_SeriesParse_quick.cfg", "thorough": "mc/MC_SeriesParse_thorough.cfg"},
    observe=("vf.obs_pandas", "observe_series_both"),
    cap={"quick": 6000, "thorough": 100000},
    select=lambda v: v["opts"]["lazy"] and not v["opts"]["inplace"],
)
