"""C10 - coercion either yields conforming data or names exactly the uncoercible values (code -> spec)."""
from __future__ import annotations

import json
import os
import re
import shutil
import subprocess
import sys
import tempfile
from concurrent.futures import ThreadPoolExecutor
from typing import Any, Dict, List

from .. import tlc
from ..core import Outcome, Prop, Run, known_ids, write_replay
from .component import MULTIINDEX, compare_mi_c10

BACKENDS = ["pandas", "polars"]


def _record(backend: str, seq_path: str, out_dir: str, tier: str, seed: int) -> Dict[str, Any]:
    out = os.path.join(out_dir, "co_%s.json" % backend)
    env = dict(os.environ)
    env.update({"PANDERA_VERIF": "1", "PYTHONHASHSEED": "0", "PYTHONWARNINGS": "ignore"})
    p = subprocess.run([sys.executable, "-m", "vf.rec_coerce", out, seq_path, backend, tier, str(seed)], cwd=str(tlc.ROOT),
                       env=env, stdout=subprocess.PIPE, stderr=subprocess.STDOUT, text=True, timeout=3000)
    if p.returncode != 0 or not os.path.exists(out):
        raise tlc.MachineryError("coercion recorder failed for %s:\n%s" % (backend, p.stdout[-3000:]))
    return {"path": out, "doc": json.loads(open(out).read())}


def _finding_matches(f: Dict[str, Any], backend: str, clause: str, tname: str, ev: Dict[str, Any], br: Dict[str, Any],
                     pool: List[Dict[str, Any]]) -> bool:
    if clause not in f.get("clauses", []) or backend not in f.get("backends", []):
        return False
    if not re.search(f.get("types", "."), tname) or not re.search(f.get("cont", "."), ev["cont"]):
        return False
    if f.get("only_null_named") and not (not br["missing"] and br["extra"] and br["extra_all_null"]):
        return False
    kinds = [pool[v - 1]["vk"] for v in ev["c"]]
    if f.get("all_null") and any(k != "null" for k in kinds):
        return False
    if f.get("has_ts_and_null") and not ("ts" in kinds and "null" in kinds and ev["phys"] == "infer"):
        return False
    return True


def contract(run: Run, only: Dict[str, Any] | None = None) -> None:
    tier = run.tier
    res = tlc.run_tlc("Coerce", "mc/MC_Coerce_enum_%s.cfg" % tier, workers=1)
    pool = next((v["pool"] for v in res.vectors if v.get("kind") == "pool"), None)
    seqs = [v["c"] for v in res.vectors if v.get("kind") == "seq"]
    if not pool or not seqs:
        raise tlc.MachineryError("Coerce.tla enumerated no containers")
    if only:
        seqs = [only["c"]]
    run.states += res.distinct_states
    run.transitions += res.states_generated
    tmp = tempfile.mkdtemp(prefix="vf-coerce-")
    known = known_ids("C10")
    try:
        spath = os.path.join(tmp, "seqs.json")
        with open(spath, "w") as fh:
            json.dump({"pool": pool, "seqs": seqs}, fh)
        backends = [b for b in BACKENDS if not only or only["backend"] == b]
        with ThreadPoolExecutor(max_workers=2) as ex:
            recs = list(ex.map(lambda b: _record(b, spath, tmp, tier, run.seed), backends))
        for backend, rec in zip(backends, recs):
            doc = rec["doc"]
            events, types = doc["events"], doc["types"]
            bad = [e for e in events if "harness_error" in e]
            if bad:
                raise tlc.MachineryError("coercion recorder failed on %d containers, e.g. %s" % (len(bad), bad[0]))
            # TLC judges every recorded execution against the contract (chunks keep the JSON small)
            chunk = 40000
            judged = 0
            for lo in range(0, len(events), chunk):
                part = dict(doc)
                part["events"] = events[lo:lo + chunk]
                ppath = os.path.join(tmp, "part.json")
                with open(ppath, "w") as fh:
                    json.dump(part, fh)
                jr = tlc.run_tlc("Coerce", "mc/MC_Coerce_judge.cfg", workers=12, env={"COERCE_FILE": ppath}, timeout=3000)
                if jr.invariant_violated:
                    raise tlc.MachineryError("Coerce.tla: %s" % jr.invariant_violated)
                run.states += jr.distinct_states
                run.transitions += jr.states_generated
                for v in jr.vectors:
                    k = v.get("kind")
                    if k == "judged":
                        judged += 1
                        e = events[lo + v["eid"] - 1]
                        run.sigs.add("%s|%s|%s|%s|%s|%s" % (backend, types[e["t"] - 1]["name"], e["cont"], v["outcome"],
                                                           min(v["nfail"], 1), min(v["nexact"], 1)))
                    elif k == "anomaly":
                        for c in v["clauses"]:
                            key = "%s:%s" % (backend, c)
                            run.anomalies[key] = run.anomalies.get(key, 0) + 1
                    elif k == "broken":
                        e = events[lo + v["eid"] - 1]
                        tname = types[e["t"] - 1]["name"]
                        for clause in v["clauses"]:
                            hit = [fid for fid, f in known.items() if _finding_matches(f, backend, clause, tname, e, v, pool)]
                            if hit:
                                run.known_hits[hit[0]] = run.known_hits.get(hit[0], 0) + 1
                                continue
                            msg = ("%s %s.try_coerce(%s %s of %s): clause %s of the coercion contract is broken (outcome %s, "
                                   "failure cases at %s, unconvertible elements at %s)"
                                   % (backend, tname, e["phys"], e["cont"], [_show(pool[x - 1]) for x in e["c"]], clause,
                                      e["outcome"], e["fc"], v["failset"]))
                            path = write_replay("C10", {"property": "C10", "backend": backend, "type": tname, "clause": clause,
                                                        "c": e["c"], "event": e, "judgement": v}) if len(run.violations) < 25 else ""
                            run.violations.append((msg, path))
            if judged != len(events):
                raise tlc.MachineryError("TLC judged %d of %d recorded coercions (%s)" % (judged, len(events), backend))
            run.traces += len(events)
            run.slices.append({"slice": "Coerce." + backend, "module": "Coerce", "types": len(types), "containers": len(seqs),
                               "events": len(events),
                               "cv_table_rows": len(doc["cv"])})
            if events:
                e = events[len(events) // 3]
                run.samples.append({"backend": backend, "type": types[e["t"] - 1], "container": [_show(pool[x - 1]) for x in e["c"]],
                                    "recorded": {k: e[k] for k in ("cont", "phys", "outcome", "fc", "cv", "same", "null_out", "again")}})
    finally:
        shutil.rmtree(tmp, ignore_errors=True)
    run.exhaustive = tier == "thorough"
    run.extra_cov["pool"] = [_show(p) for p in pool]


def _show(p: Dict[str, Any]) -> str:
    vk = p["vk"]
    return {"int": lambda: str(p["n"]), "float": lambda: str(p["h"] / 2.0), "str": lambda: repr(p["s"]),
            "bool": lambda: str(p["b"]), "null": lambda: "null", "ts": lambda: "Timestamp(2020-01-01)"}[vk]()


def compare(vec: Dict[str, Any], obs: Dict[str, Any]) -> Outcome:
    if vec.get("kind") == "multiindex":
        return compare_mi_c10(vec, obs)
    return Outcome()


def replay(payload: Dict[str, Any]) -> int:
    run = Run(prop=PROP, tier="quick", seed=0)
    contract(run, only={"backend": payload["backend"], "c": payload["c"]})
    still = [m for m, _ in run.violations if payload["type"] in m and "clause %s " % payload["clause"] in m]
    print(json.dumps({"type": payload["type"], "clause": payload["clause"], "c": payload["c"], "still_fails": bool(still),
                      "now": still[:3]}, indent=1))
    return 1 if still else 0


PROP = Prop(
    technique=("explicit TLA+ contract (Coerce.tla) evaluated by TLC on every recorded execution of the implementation "
               "(code->spec conformance); containers enumerated by TLC from the specification's value pool"),
    id="C10",
    title="Coercion either yields conforming data or names exactly the uncoercible values",
    slices=[MULTIINDEX],
    compare=compare,
    extra=contract,
    replay=replay,
    rule=("Coerce.tla defines the value pool (ints incl. one outside 8 bits, integral/non-integral floats, numeric / "
          "non-numeric / date strings, booleans, null, a timestamp), enumerates every container of length <= MaxLen over it "
          "(quick: <=2 plus 12 triples; thorough: <=3) and states the contract clause by clause. The recorder builds each "
          "container as a pandas Series (object and inferred dtype), Index and DataFrame column under a coercing Column "
          "schema, and as a polars column, for every registered coercible data type of the pandas (incl. nullable-extension "
          "and pyarrow) and polars engines, calls the real coerce_value on the actual elements and the real try_coerce, and "
          "logs outcome, failure cases, values, labels, own dtype check, second coercion. Every logged execution is a "
          "behaviour Start -> Coerced -> CoercedAgain judged by TLC. Distinct = distinct (backend, type, container kind, "
          "outcome, has unconvertible element, has exact element)."),
    assumptions=["the element-level oracle is the implementation's own coerce_value, as the property states; for polars "
                 "(no coerce_value) it is try_coerce on the singleton container",
                 "Exact and HoldsNull are specification-defined and conservative",
                 "a container call that returns although an element is individually unconvertible, or raises although none "
                 "is, is counted as an anomaly and not a violation (the property does not forbid it)"],
    invariants=["LengthPreserved", "LabelsPreserved", "ResultPassesOwnCheck", "ExactValuesKept", "NullsStayNull",
                "ConformingIsIdentity", "UnconvertibleValueNulled", "NonNumericTextAccepted", "FailureCasesExact", "DocumentedChannel", "CoerceTwiceIsOnce"],
)
