"""C12 - schema serialisation round-trips: YAML, JSON and generated script."""
from __future__ import annotations

import json
import re
from typing import Any, Dict, List

from ..core import Outcome, Prop, Slice, known_ids
from ..obs_io import norm_tagged

IO = Slice(name="IO", module="IO", cfg={"quick": "mc/MC_IO_quick.cfg", "thorough": "mc/MC_IO_thorough.cfg"},
           observe=("vf.obs_io", "observe_io"), cap={"quick": 0, "thorough": 0}, workers=8)


def _ncheck(c: Dict[str, Any]):
    st = []
    for name, v in c["st"]:
        v = norm_tagged(v)
        if v[0] == "f":
            v = ["i", v[1]]
        st.append((name, json.dumps(v)))
    return (c["k"], tuple(st), bool(c["ina"]), int(c["nfc"]), bool(c["warn"]))


def _ncomp(c: Dict[str, Any]) -> Dict[str, Any]:
    return {k: ([_ncheck(x) for x in v] if k == "checks" else v) for k, v in c.items()}


def differences(exp: Dict[str, Any], got: Dict[str, Any]) -> List[str]:
    out: List[str] = []
    for fld in ("dtype", "coerce", "strict", "name", "ordered", "unique", "report", "ucn", "amc", "title", "desc"):
        if exp[fld] != got[fld]:
            out.append("%s is %r, should be %r" % (fld, got[fld], exp[fld]))
    if [_ncheck(x) for x in exp["checks"]] != [_ncheck(x) for x in got["checks"]]:
        out.append("frame-level checks are %s, should be %s" % ([x["k"] for x in got["checks"]], [x["k"] for x in exp["checks"]]))
    for part, keyf in (("cols", "key"), ("index", "name")):
        if [c[keyf] for c in exp[part]] != [c[keyf] for c in got[part]]:
            out.append("%s are %s, should be %s" % (part, [c[keyf] for c in got[part]], [c[keyf] for c in exp[part]]))
            continue
        for ce, cg in zip(exp[part], got[part]):
            ne, ng = _ncomp(ce), _ncomp(cg)
            for k in ne:
                if ne[k] != ng.get(k):
                    out.append("%s %s: %s is %s, should be %s" % (part[:-1] if part == "cols" else "index level", ce[keyf], k,
                                                                    ng.get(k), ne[k]))
    return out


def _known(vec: Dict[str, Any], obs: Dict[str, Any], mism: List[str]) -> List[str]:
    """which listed findings explain ALL of the mismatches of this vector"""
    hits = []
    text = " ; ".join(mism)
    for fid, f in known_ids("C12").items():
        m = f.get("match", {})
        if "fmt" in m and vec["fmt"] not in m["fmt"]:
            continue
        if "mods" in m and not (set(m["mods"]) & set(vec["mods"])):
            continue
        if "schema_has" in m and not re.search(m["schema_has"], json.dumps(vec["schema"])):
            continue
        if "mismatch" in m and not all(re.search(m["mismatch"], x) for x in mism):
            continue
        hits.append(fid)
    return hits


def compare(vec: Dict[str, Any], obs: Dict[str, Any]) -> Outcome:
    oc = Outcome()
    mism: List[str] = []
    lossy = bool(vec["lossy"])
    if "error" in obs:
        mism.append("%s: %s raised (%s)" % (vec["fmt"], obs["error"], obs.get("detail", "")[:100]))
    else:
        d0 = differences(vec["schema"], obs["original"])
        if d0:
            # the harness did not build the schema TLC asked for: machinery problem, not a violation
            return Outcome(mismatches=[], anomalies=["harness-build-mismatch:" + d0[0][:60]])
        d = differences(vec["expect"], obs["reread"])
        if d:
            mism.append("%s: the re-read schema differs from the specification's prediction: %s" % (vec["fmt"], "; ".join(d[:3])))
        if lossy and not d:
            # the format cannot represent the schema: TLC predicted exactly this loss (repeated check name)
            mism.append("%s: round trip is not the identity: a component repeats a check name and the format keys checks by name"
                        % vec["fmt"])
        if not lossy:
            if not obs["eq"]:
                mism.append("%s: re-read schema != original (DataFrameSchema.__eq__)" % vec["fmt"])
            if obs["verdict_diffs"]:
                i, a, b = obs["verdict_diffs"][0]
                mism.append("%s: verdict on probe frame %d changed: %s -> %s" % (vec["fmt"], i, a, b))
        if not obs["fix"]:
            mism.append("%s: serialising the re-read schema does not reproduce the text" % vec["fmt"])
    if not obs.get("pure", True):
        mism.append("%s: writing changed the schema object" % vec["fmt"])
    if any(c.get("extra_options_key") for comp in obs.get("reread", {}).get("cols", []) for c in comp["checks"]):
        mism.append("%s: a re-read check carries an 'options' statistic" % vec["fmt"])
    if mism:
        hits = _known(vec, obs, mism)
        if hits:
            oc.known = hits[:1]
            mism = []
    oc.mismatches = mism
    oc.sig = "%s|%s|%s" % (vec["fmt"], ",".join(vec["mods"]), _shape(vec["schema"]))
    return oc


def _shape(s: Dict[str, Any]) -> str:
    a = s["cols"][0]
    return "%s|%s|%s|%d|%s" % (a["dtype"], [c["k"] for c in a["checks"]], [(c["ina"], c["nfc"], c["warn"]) for c in a["checks"]],
                               len(s["index"]), [s[k] for k in ("strict", "name", "title", "desc", "dtype", "report")])


PROP = Prop(
    id="C12",
    title="Schema serialisation round-trips: YAML, JSON and generated script",
    slices=[IO],
    compare=compare,
    rule=("IO.tla models schema -> statistics form (checks as a dict keyed by check name) -> document -> schema as three "
          "actions and explores every schema obtained from a two-column base schema by one (quick) or two (thorough, "
          "pairwise) modifications of a serialisable attribute: column dtype / nullable / unique / coerce / required / regex "
          "/ key / title / description (plain, double-quoted, single-quoted, YAML-sensitive text), 33 check lists covering "
          "every built-in check kind, options, order and repeated names, 8 index shapes (unnamed, unique, MultiIndex...), "
          "frame-level checks, dtype, coerce, strict incl. 'filter', name, ordered, joint uniqueness, report_duplicates, "
          "unique_column_names, add_missing_columns, title, description, column order. TLC proves RoundTrip, TextFixpoint, "
          "WriterPure and that loss happens exactly for repeated check names. Every behaviour is replayed through "
          "to_yaml/from_yaml, to_json/from_json and to_script+exec: projected re-read schema = prediction, real == holds, "
          "the text is a fix-point, the writer leaves the schema's fingerprint unchanged and 24 probe frames get the same "
          "verdict from both schemas. Distinct = distinct (format, modified attributes, schema shape)."),
    assumptions=["column keys are strings (JSON object keys)", "probe frames are a fixed bank; verdict equality is checked, not verdict correctness (C01)"],
    invariants=["RoundTrip", "TextFixpoint", "WriterPure", "LossOnlyByRepeat"],
)
