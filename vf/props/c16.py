"""C16 - a DataFrameModel means the same as the DataFrameSchema it describes."""
from __future__ import annotations

import json
import re
from typing import Any, Dict, List

from ..core import Outcome, Prop, Slice, known_ids

MODEL = Slice(name="Model", module="Model", cfg={"quick": "mc/MC_Model_quick.cfg", "thorough": "mc/MC_Model_thorough.cfg"},
              observe=("vf.obs_model", "observe_model"), cap={"quick": 5000, "thorough": 60000}, workers=16)


def _nchk(c: Dict[str, Any]):
    return (c["k"], c.get("arg"), c.get("pred"), c.get("name"), c.get("ina", True))


def _ncomp(c: Dict[str, Any]):
    d = dict(c)
    d["checks"] = [_nchk(x) for x in c["checks"]]
    d["parsers"] = list(c.get("parsers", []))
    return d


def schema_diff(exp: Dict[str, Any], got: Dict[str, Any]) -> List[str]:
    out: List[str] = []
    if "error" in exp or "error" in got:
        if exp.get("error") != got.get("error"):
            out.append("to_schema %s, specification %s" % (got.get("error", "returned a schema"), exp.get("error", "a schema")))
        return out
    for f in ("strict", "coerce", "ordered", "name", "amc"):
        if exp[f] != got[f]:
            out.append("%s is %r, should be %r" % (f, got[f], exp[f]))
    if exp.get("mi") and got.get("mi") and exp["mi"] != got["mi"]:
        out.append("MultiIndex options are %r, should be %r" % (got["mi"], exp["mi"]))
    if [_nchk(c) for c in exp["checks"]] != [_nchk(c) for c in got["checks"]]:
        out.append("frame checks %s, should be %s" % ([_nchk(c) for c in got["checks"]], [_nchk(c) for c in exp["checks"]]))
    for part in ("cols", "index"):
        ke, kg = [c["key"] for c in exp[part]], [c["key"] for c in got[part]]
        if ke != kg:
            out.append("%s %s, should be %s" % (part, kg, ke))
            continue
        for ce, cg in zip(exp[part], got[part]):
            ne, ng = _ncomp(ce), _ncomp(cg)
            for k in ne:
                if part == "index" and k == "required":
                    continue
                if ne[k] != ng.get(k):
                    out.append("%s %s: %s is %s, should be %s" % (part[:-1] if part == "cols" else "index", ce["key"], k, ng.get(k), ne[k]))
    return out


def _known(vec, mism: List[str]) -> List[str]:
    hits = []
    blob = json.dumps(vec["prog"])
    for fid, f in known_ids("C16").items():
        m = f.get("match", {})
        if "backend" in m and vec["backend"] not in m["backend"]:
            continue
        if "prog_has" in m and not re.search(m["prog_has"], blob):
            continue
        if "mismatch" in m and not all(re.search(m["mismatch"], x) for x in mism):
            continue
        hits.append(fid)
    return hits


def compare(vec: Dict[str, Any], obs: Dict[str, Any]) -> Outcome:
    oc = Outcome()
    if obs.get("skipped"):
        oc.anomalies.append("skipped:" + obs["skipped"])
        return oc
    mism: List[str] = []
    compiled = [s for s in obs["steps"] if s["op"] == "to_schema"]
    bad_define = [s for s in obs["steps"] if s["op"] == "define" and "error" in s]
    if bad_define:
        mism.append("class M%d cannot be defined: %s %s" % (bad_define[0]["cls"], bad_define[0]["error"], bad_define[0].get("detail", "")[:100]))
    else:
        if len(compiled) != len(vec["expect"]):
            mism.append("history produced %d to_schema results, specification %d" % (len(compiled), len(vec["expect"])))
        for i, (e, g) in enumerate(zip(vec["expect"], compiled)):
            d = schema_diff(e["schema"], g if "error" in g else g["schema"])
            if d:
                mism.append("to_schema #%d (M%d, after %s): %s" % (i + 1, e["cls"], _hist(vec), "; ".join(d[:3])))
            if "error" not in g and not g["again_equal"]:
                mism.append("two consecutive to_schema() calls on M%d return unequal schemas" % e["cls"])
        for k, (e, g) in enumerate(zip(vec["final"], obs["final"]), start=1):
            d = schema_diff(e, g if "error" in g else g["schema"])
            if d:
                mism.append("after the whole history M%d.to_schema(): %s" % (k, "; ".join(d[:3])))
        for v in obs["verdicts"]:
            if "build_error" in v:
                oc.anomalies.append("object-api-build:" + v["build_error"][:60])
            elif v["diffs"]:
                i, a, b = v["diffs"][0]
                mism.append("M%d.validate and the equivalent DataFrameSchema disagree on probe %d: model %s, schema %s" % (v["cls"], i, a[:120], b[:120]))
    if mism:
        hits = _known(vec, mism)
        if hits:
            oc.known = hits[:1]
            mism = []
    oc.mismatches = mism
    oc.sig = "%s|%s|%s" % (vec["backend"], _hist(vec), json.dumps(vec["prog"], sort_keys=True))
    return oc


def _hist(vec) -> str:
    return " ".join("%s%d" % ("D" if op == "define" else "T", k) for op, k in vec["hist"])


PROP = Prop(
    id="C16",
    title="A DataFrameModel means the same as the DataFrameSchema it describes",
    slices=[MODEL],
    compare=compare,
    rule=("Model.tla defines programs of 2-3 model classes (field a/b declarations with Series/Optional/Index/plain "
          "annotations and Field options incl. alias and keyword checks, re-declaration with and without Field in a child, own "
          "Config options, @check / @dataframe_check / @parser methods incl. overriding and named checks) and Compile(prog, k), "
          "the schema the documentation promises (incl. SchemaInitError for a method whose target field no longer exists). "
          "TLC explores every history of Define(k) / ToSchema(k) up to MaxHist over the program set (all roots x probe "
          "children, probe roots x all children, 3-class chains) and proves Stable, ParentsUntouched, InheritedFieldSame. "
          "Each history is replayed on pandas and polars models generated as source: every to_schema() result is projected "
          "(columns, index, dtypes, flags, built-in checks with arguments, custom checks and parsers identified by their "
          "behaviour on a probe, config options) and compared with Compile, repeated calls must be equal, and Model.validate "
          "must agree on probe frames with the object-API schema built from the prediction. Distinct = distinct (backend, "
          "history, program)."),
    assumptions=["custom checks/parsers are identified up to their behaviour on a fixed probe series/frame",
                 "polars models are exercised without Index annotations"],
    invariants=["Stable", "ParentsUntouched", "InheritedFieldSame"],
)
