"""C15 - schema transformations mirror the corresponding dataframe transformations."""
from __future__ import annotations

from typing import Any, Dict, List

from ..core import Outcome, Prop, Slice
from ..proj import norm

OPS = Slice(name="SchemaOps", module="MC_SchemaOps",
            cfg={"quick": "mc/MC_SchemaOps_quick.cfg", "thorough": "mc/MC_SchemaOps_thorough.cfg"},
            observe=("vf.obs_schemaops", "observe_schemaops"), cap={"quick": 0, "thorough": 40000})


def ncheck(c):
    return (c.get("k"), tuple(repr(norm(x)) if isinstance(x, list) and len(x) == 2 and not isinstance(x[0], list) else repr(x) for x in c.get("a", [])),
            c.get("ina"), c.get("nfc"), c.get("warn"))


def ncomp(c: Dict[str, Any]):
    return {k: (norm(v) if k in ("key", "default") else [ncheck(x) for x in v] if k == "checks" else v) for k, v in c.items()}


def same_schema(a: Dict[str, Any], b: Dict[str, Any]) -> List[str]:
    out: List[str] = []
    ka = [norm(c["key"]) for c in a["cols"]]
    kb = [norm(c["key"]) for c in b["cols"]]
    if ka != kb:
        out.append("columns %s, predicted %s" % (kb, ka))
        return out
    for ca, cb in zip(a["cols"], b["cols"]):
        na, nb = ncomp(ca), ncomp(cb)
        for k in na:
            if na[k] != nb.get(k):
                out.append("column %s: %s is %s, predicted %s" % (ca["key"], k, nb.get(k), na[k]))
    if len(a["index"]) != len(b["index"]):
        out.append("index levels %d, predicted %d" % (len(b["index"]), len(a["index"])))
        return out
    for la, lb in zip(a["index"], b["index"]):
        na, nb = ncomp(la), ncomp(lb)
        for k in na:
            if na[k] != nb.get(k):
                out.append("index level %s: %s is %s, predicted %s" % (la["key"], k, nb.get(k), na[k]))
    return out


def against(vec, exp, obs) -> List[str]:
    out: List[str] = []
    for i, (e, g) in enumerate(zip(exp, obs["steps"])):
        op = vec["hist"][i]["op"]
        if "error" in e:
            if g.get("error") != e["error"]:
                out.append("step %d %s: predicted %s, observed %s" % (i + 1, op, e["error"], g.get("error", "a schema")))
        else:
            if "error" in g:
                out.append("step %d %s: predicted a schema, observed %s" % (i + 1, op, g["error"]))
            else:
                d = same_schema(e["schema"], g["schema"])
                if d:
                    out.append("step %d %s: %s" % (i + 1, op, "; ".join(d[:4])))
        if out:
            break
    return out


def compare(vec: Dict[str, Any], obs: Dict[str, Any]) -> Outcome:
    oc = Outcome()
    mism = against(vec, vec["expect"], obs)
    for i, g in enumerate(obs["steps"]):
        if not g.get("receiver_unchanged", True):
            mism.append("step %d %s changed its receiver" % (i + 1, vec["hist"][i]["op"]))
    if mism and vec.get("devs"):
        m2 = against(vec, vec["asis"], obs)
        if not m2 and not any(not g.get("receiver_unchanged", True) for g in obs["steps"]):
            oc.known = _which(vec)
            mism = []
    no_error = not any("error" in e for e in vec["expect"])
    if not obs.get("init_ok", True):
        mism.append("the initial schema rejects its own good frame (harness)")
    if no_error and obs["mirror_verdict"] not in (None, "ok"):
        if "ResetIndexOrderNotMirrored" in _order_dev(vec) and "COLUMN_NOT_ORDERED" in obs["mirror_verdict"]:
            oc.known = oc.known + ["ResetIndexOrderNotMirrored"]
        else:
            mism.append("the transformed schema does not accept the frame transformed by the mirrored operations: %s" % obs["mirror_verdict"])
    oc.mismatches = mism
    oc.sig = " ; ".join(o["op"] + str(o.get("keys", o.get("upd", o.get("map", "")))) for o in vec["hist"]) + "|%d" % len(vec["init"]["index"])
    return oc


def _which(vec) -> List[str]:
    return list(vec["devs"])


def _order_dev(vec) -> List[str]:
    return ["ResetIndexOrderNotMirrored"] if any(o["op"] == "reset_index" and not o["drop"] for o in vec["hist"]) else []


PROP = Prop(
    id="C15",
    title="Schema transformations mirror the corresponding dataframe transformations",
    slices=[OPS],
    compare=compare,
    rule=("SchemaOps.tla defines add/remove/select/rename/update_column(s)/set_index/reset_index on an abstract schema whose "
          "columns carry every attribute at a non-default value; TLC explores every operation sequence up to the bound from "
          "two initial schemas (with and without an index) and proves the inverse laws (RemoveAfterAdd, RenameBack, "
          "ResetAfterSet, SelectAll), the frame condition of updates and that invalid requests leave the schema unchanged. "
          "Each sequence is replayed on the real schema: after every step the projected schema (every attribute of every "
          "column and index level, column order) is compared with the prediction, the receiver's fingerprint must be "
          "unchanged, and the transformed schema must accept the frame transformed by the mirrored pandas operations."),
    assumptions=["frame probes use one good frame per initial schema"],
    invariants=["RemoveAfterAdd", "RenameBack", "SelectAll", "ResetAfterSet", "UpdateFrameCondition", "ErrorsLeaveSchema"],
)
