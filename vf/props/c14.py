"""C14 - an inferred schema accepts the data it was inferred from."""
from __future__ import annotations

import re
from typing import Any, Dict, List

from ..core import Outcome, Prop, Slice, known_ids

INFER = Slice(name="Infer", module="Infer", cfg={"quick": "mc/MC_Infer_quick.cfg", "thorough": "mc/MC_Infer_thorough.cfg"},
              observe=("vf.obs_infer", "observe_infer"), cap={"quick": 0, "thorough": 0}, workers=8)


def _known(vec, mism: List[str]) -> List[str]:
    hits = []
    for fid, f in known_ids("C14").items():
        m = f.get("match", {})
        if "pd" in m and vec["pd"] not in m["pd"]:
            continue
        if "cont" in m and vec["cont"] not in m["cont"]:
            continue
        if "empty" in m and (len(vec["cells"]) == 0) != m["empty"]:
            continue
        if "mismatch" in m and not all(re.search(m["mismatch"], x) for x in mism):
            continue
        hits.append(fid)
    return hits


def compare(vec: Dict[str, Any], obs: Dict[str, Any]) -> Outcome:
    oc = Outcome()
    mism: List[str] = []
    exp = vec["expect"]
    if "error" in obs:
        mism.append("infer_schema raised %s (%s)" % (obs["error"], obs.get("detail", "")))
    elif obs["built_pd"].replace("string", "object") != vec["pd"] and not (vec["pd"] == "object" and obs["built_pd"] == "object"):
        # pandas itself changed the physical dtype of the field while building the container (an all-null level of a
        # MultiIndex becomes float64): not the field TLC asked for
        oc.anomalies.append("carrier-changed-dtype:%s->%s" % (vec["pd"], obs["built_pd"]))
        return oc
    else:
        got = obs["inferred"] if obs["inferred"] is not None else {"dtype": exp["dtype"], "nullable": exp["nullable"], "checks": exp["checks"]}
        if exp["dtype"] != "any" and got["dtype"] != exp["dtype"]:
            mism.append("inferred dtype %s, specification %s" % (got["dtype"], exp["dtype"]))
        if got["nullable"] != exp["nullable"]:
            mism.append("inferred nullable=%s, specification %s" % (got["nullable"], exp["nullable"]))
        ge = [(c["k"], [list(a) for a in c["a"]]) for c in exp["checks"]]
        gg = [(c["k"], c["a"]) for c in got["checks"]]
        if ge != gg:
            mism.append("inferred checks %s, specification %s (bounds not tight or wrong statistic)" % (gg, ge))
        if not vec["accepts"]:
            mism.append("the specification itself rejects (model inconsistent)")
        if not obs["accepts"]:
            mism.append("the inferred schema rejects the data it was inferred from: %s" % obs.get("detail", ""))
        else:
            if not obs["unchanged"] or not obs["same_dtypes"]:
                mism.append("validate returned a changed object")
        if obs["yaml"] not in ("ok", "n/a"):
            mism.append("after a YAML round trip the inferred schema %s (%s)" % (obs["yaml"], obs.get("detail", "")[:100]))
        if obs.get("frame_coerce") is False:
            mism.append("inferred frame schema has coerce=False")
    if mism:
        hits = _known(vec, mism)
        if hits:
            oc.known = hits[:1]
            mism = []
    oc.mismatches = mism
    kinds = sorted({c[0] for c in vec["cells"]})
    if len(vec["cells"]) > 0:
        oc.sig = "%s|%s|%s|%d|%s" % (vec["pd"], vec["cont"], kinds, len(vec["cells"]), [c["k"] for c in exp["checks"]])
    return oc


PROP = Prop(
    id="C14",
    title="An inferred schema accepts the data it was inferred from",
    slices=[INFER],
    compare=compare,
    rule=("Infer.tla defines Infer(field) (dtype, nullable, ge/le bounds converted to float with explicit IEEE rounding of "
          "the symbolic integers 2**53+k, isin(categories), nothing for all-null or empty fields) and enumerates every field "
          "of at most MaxRows cells (2 quick, 4 thorough) over int64, float64, Int64, bool, object(str), category, "
          "datetime64[ns] and timedelta64[ns] values incl. missing ones, as a DataFrame column, a named Index, the first level "
          "of a MultiIndex and a Series. TLC proves Sound, SoundDeclared (agreement with Field.tla's FieldSat), Tight, "
          "RoundingMonotone, NoChecksWithoutData. Each behaviour is replayed: the real infer_schema is projected and compared "
          "with Infer (dtype, nullable, every bound), validate must return the unchanged object, and the schema re-read "
          "from YAML must accept the data too. Non-trivial = non-empty field; distinct = distinct (dtype, container, value "
          "kinds, length, inferred check kinds)."),
    assumptions=["2**53+k values stand for the float-rounding corner; other magnitudes are not explored",
                 "complex, decimal, period, interval and sparse columns are outside the modelled vocabulary"],
    invariants=["Sound", "SoundDeclared", "Tight", "RoundingMonotone", "NoChecksWithoutData"],
)
