"""C17 - decorators gate the call on validation and are otherwise transparent."""
from __future__ import annotations

import re
from typing import Any, Dict, List

from ..core import Outcome, Prop, Slice, known_ids

DECO = Slice(name="Decorators", module="Decorators",
             cfg={"quick": "mc/MC_Decorators_quick.cfg", "thorough": "mc/MC_Decorators_thorough.cfg"},
             observe=("vf.obs_decorators", "observe_deco"), cap={"quick": 0, "thorough": 0}, workers=8)


def _known(vec, mism: List[str], obs: Dict[str, Any]) -> List[str]:
    sc = vec["sc"]
    hits = []
    for fid, f in known_ids("C17").items():
        m = f.get("match", {})
        ok = True
        for fld in ("deco", "kind", "sig", "getter", "dfpass", "kpass", "opt", "data"):
            if fld in m and sc[fld] not in m[fld]:
                ok = False
        if ok and "outcome" in m and not re.search(m["outcome"], str(obs.get("outcome", ""))):
            ok = False
        if ok:
            hits.append(fid)
    return hits


def compare(vec: Dict[str, Any], obs: Dict[str, Any]) -> Outcome:
    oc = Outcome()
    sc, exp = vec["sc"], vec["expect"]
    mism: List[str] = []
    if "define_error" in obs:
        mism.append("the decorated function cannot be defined: %s" % obs["define_error"])
    else:
        if obs["called"] != exp["called"]:
            mism.append("body %s, specification: %s" % ("executed" if obs["called"] else "not executed",
                                                         "executed" if exp["called"] else "not executed"))
        elif exp["called"]:
            if obs["received"] != exp["received"]:
                mism.append("body received the %s frame, specification: the %s frame" % (obs["received"], exp["received"]))
            if not obs["k_ok"]:
                mism.append("the other argument did not reach the body unchanged")
            if obs["calls"] != 1:
                mism.append("body executed %d times" % obs["calls"])
        eo, go = exp["outcome"], obs["outcome"]
        same = eo == go or (eo == "returned_validated" and go in ("returned_parsed", "returned_original"))
        if not same:
            mism.append("call %s, specification: %s%s" % (go, eo, (" (" + obs["detail"][:80] + ")") if obs.get("detail") else ""))
        if not obs.get("caller_unchanged", True):
            mism.append("the caller's frame was modified")
    if mism:
        hits = _known(vec, mism, obs)
        if hits:
            oc.known = hits[:1]
            mism = []
    oc.mismatches = ["%s %s f(%s) getter=%s df by %s, k by %s, %s, %s data: %s" % (sc["deco"], sc["kind"], sc["sig"], sc["getter"], sc["dfpass"],
                                                                                  sc["kpass"], sc["opt"], sc["data"], m) for m in mism]
    oc.sig = "|".join(str(sc[k]) for k in ("deco", "kind", "sig", "getter", "dfpass", "kpass", "opt", "data"))
    return oc


PROP = Prop(
    id="C17",
    title="Decorators gate the call on validation and are otherwise transparent",
    slices=[DECO],
    compare=compare,
    rule=("Decorators.tla enumerates every scenario decorator (check_input, check_output, check_io, check_types) x function "
          "kind (function, method, async; thorough adds classmethod and staticmethod) x signature (6 parameter lists incl. "
          "defaults, *args, keyword-only, **kwargs) x designation (first argument / position / name; tuple element / dict key "
          "/ callable for outputs; by name; by annotation) x every call shape Python accepts (frame and other argument "
          "positional, by keyword, defaulted) x option (none, head=1, tail=1, lazy) x data (valid, valid only in the first / "
          "last row, breaking two checks, coercible strings, validated-then-broken), as a behaviour Gate -> Body/Reject -> "
          "GateOut, and proves GatesTheCall, EquivalentDesignations and OptionsHonoured. Each scenario is generated as source, "
          "executed, and compared on: was the body executed (once), which object it received (the parsed copy or the "
          "caller's), did the other argument arrive unchanged, what the call returned or raised (SchemaError vs SchemaErrors), "
          "was the caller's frame left alone. Distinct = distinct scenarios."),
    assumptions=["one schema (column a coerced to int, 0 <= a <= 10) and its model twin; frames of two rows"],
    invariants=["GatesTheCall", "EquivalentDesignations", "OptionsHonoured"],
)
