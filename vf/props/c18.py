"""C18 - configuration is scoped, honoured, and validation depth only removes checks."""
from __future__ import annotations

from typing import Any, Dict

from ..core import Outcome, Prop, Slice
from ..obs_config import env_vars

CONFIG = Slice(
    name="Config",
    module="MC_Config",
    cfg={"quick": "mc/MC_Config_quick.cfg", "thorough": "mc/MC_Config_thorough.cfg"},
    observe=("vf.obs_config", "observe_config"),
    cap={"quick": 8000, "thorough": 120000},
    env_of=lambda v: env_vars(v["env"]),
)


def compare(vec: Dict[str, Any], obs: Dict[str, Any]) -> Outcome:
    oc = Outcome()
    exp = vec["expect"]
    got = obs["obs"]
    if len(exp) != len(got):
        oc.mismatches.append("history produced %d observations, specification %d" % (len(got), len(exp)))
        return oc
    for i, (e, g) in enumerate(zip(exp, got)):
        op = vec["hist"][i]
        for fld in ("ctx", "raw_depth", "global", "res"):
            if e[fld] != g[fld]:
                if (fld == "res" and op["op"] == "polars_column_validate" and op["kind"] == "lazyframe" and g[fld] == e["asis"]):
                    if "PolarsColumnLazyFrameFullDepth" not in oc.known:
                        oc.known.append("PolarsColumnLazyFrameFullDepth")
                    continue
                oc.mismatches.append("after step %d (%s): %s is %s, specification says %s"
                                     % (i + 1, _opname(op), fld, g[fld], e[fld]))
                break
        if oc.mismatches:
            break
    ops = [o["op"] for o in vec["hist"]]
    if "enter" in ops or any(v != "unset" for v in vec["env"].values()):
        oc.sig = "%s|%s" % (sorted(vec["env"].items()), [_opname(o) for o in vec["hist"]])
    return oc


def _opname(op: Dict[str, Any]) -> str:
    if op["op"] == "enter":
        return "enter(%s)" % ",".join("%s=%s" % (k, v) for k, v in sorted(op["opts"].items()) if v != "None")
    if op["op"] == "exit":
        return "exit(%s)" % ("exception" if op["exc"] else "normal")
    return "%s(%s)" % (op["op"], ",".join(str(op[k]) for k in ("kind", "scope") if k in op))


def trace_validation(run) -> None:
    """code -> spec: record config_context events of seeded random programs and of the repository's own
    configuration tests, and let TLC decide whether every execution is a behaviour of Config.tla"""
    from .. import tracecheck
    from ..core import write_replay

    n = 400 if run.tier == "quick" else 4000
    tests = ["tests/polars/test_polars_config.py", "tests/core/test_config.py"]
    if run.tier == "thorough":
        tests += ["tests/polars/test_polars_container.py", "tests/polars/test_polars_components.py"]
    tests = ["/repo/" + t for t in tests]
    traces, path = tracecheck.record("vf.rec_config", [str(run.seed), str(n)] + tests)
    try:
        res = tracecheck.validate("Trace_Config", "mc/Trace_Config.cfg", path)
    finally:
        tracecheck.cleanup(path)
    run.traces += len(traces)
    run.states += res["states"]
    run.transitions += res["transitions"]
    run.extra_cov["trace_validation"] = {"traces": len(traces), "events": sum(len(t) for t in traces),
                                         "spec": "Trace_Config.tla", "accepted": res["rejected"] is None}
    if traces:
        run.samples.append({"recorded_trace": traces[min(3, len(traces) - 1)][:12]})
    if res["rejected"]:
        rj = res["rejected"]
        tr = traces[rj["tid"] - 1] if rj.get("tid") else None
        p = write_replay("C18", {"property": "C18", "kind": "trace", "rejected": rj, "trace": tr})
        run.violations.append(("recorded execution is not a behaviour of Config.tla: %s at event %s of trace %s"
                               % (rj["property"], rj.get("l"), rj.get("tid")), p))


PROP = Prop(
    technique='explicit TLA+ specification model-checked with TLC; TLC-generated histories replayed into the implementation (spec->code) and recorded config_context traces validated by TLC (code->spec)',
    id="C18",
    title="Configuration is scoped, honoured, and validation depth only removes checks",
    slices=[CONFIG],
    compare=compare,
    rule=("TLC explores every history of config_context enter/exit (normal and by exception), polars and pandas "
          "validations over every environment setting of the slice and proves ScopedRestore, SavedIsEntered, "
          "GlobalUntouched, EnvHonoured, PolarsDefaults, ContextBeatsGlobal. Every complete history is replayed with "
          "real nested `with config_context(...)` blocks in worker processes started with that environment; "
          "get_config_context()/get_config_global() and the validation verdict are compared after every step. "
          "Non-trivial = the history enters a context or the environment sets a variable; distinct = distinct "
          "(environment, operation sequence)."),
    assumptions=[
        "environment variables are read at import time, so each environment gets fresh worker processes",
        "validation verdicts under a depth are observed with one data-level and one schema-level violation",
    ],
    extra=trace_validation,
    invariants=["ScopedRestore", "SavedIsEntered", "GlobalUntouched", "AllClosedMeansGlobal", "EnvHonoured",
                "PolarsDefaults", "ContextBeatsGlobal", "DepthOnlyRemoves"],
)
