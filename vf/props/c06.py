"""C06 - errors use the documented channel; failures leave no trace (exception safety)."""
from __future__ import annotations

from typing import Any, Dict

from ..core import Outcome, Prop
from .component import COMPONENT, MULTIINDEX, compare_c06 as _component, compare_mi_c06 as _multiindex
from . import slices
from .c05 import HISTORY, make_compare
from ..core import Slice
from .c11 import SERIES_DROP

# DataFrameSchema level on pandas and polars (FrameRows.tla): the drop and the head/tail runs, eager and lazy
FRAME_ROWS_ALL = Slice(name="FrameRows.all", module="FrameRows",
                       cfg={"quick": "mc/MC_FrameRows_quick.cfg", "thorough": "mc/MC_FrameRows_thorough.cfg"},
                       observe=("vf.obs_rows", "observe_rows"), cap={"quick": 6000, "thorough": 60000})

_history = make_compare(("outcome", "calls", "hidden"), ("input_unchanged", "cfg_unchanged"), only_fault=True)


def compare(vec: Dict[str, Any], obs: Dict[str, Any]) -> Outcome:
    if vec.get("kind") == "component":
        return _component(vec, obs)
    if vec.get("kind") == "multiindex":
        return _multiindex(vec, obs)
    if vec["kind"] == "history":
        return _history(vec, obs)
    if vec["kind"] == "rows":
        oc = Outcome()
        if "nonframe" in obs and obs["nonframe"] not in vec.get("nonframe", ["TypeError"]):
            oc.mismatches.append("%s: validate(<a list>) raised %s, documented %s" % (vec["backend"], obs["nonframe"], vec.get("nonframe")))
        for tag in ("kind", "lazy_kind"):
            k = obs.get(tag, "")
            if k.startswith("Leak:"):
                joint_lazy = (vec["backend"] == "polars" and tag == "lazy_kind" and k == "Leak:NotImplementedError"
                              and vec["schema"]["joint"] != "no")
                if joint_lazy:
                    oc.known = oc.known + ["PolarsLazyJointUniqueNotImplemented"]
                elif tag == "kind" and "DropEvalsMultiIndexLabels" in (vec.get("devs") or []) and k == vec.get("asis"):
                    oc.known = oc.known + ["DropEvalsMultiIndexLabels"]
                else:
                    oc.mismatches.append("%s %s (%s): an internal exception escaped validate: %s %s"
                                         % (vec["backend"], vec["mode"], "lazy" if tag == "lazy_kind" or vec["mode"] == "drop" else "eager",
                                            k, obs.get("msg", "")[:100]))
        oc.sig = "rows|%s|%s|%s|%s" % (vec["backend"], vec["mode"], obs.get("kind"), obs.get("lazy_kind"))
        return oc
    # every other explored (schema, data): no internal exception may escape validate
    oc = Outcome()
    runs = [("", obs)] if "kind" in obs else [(m + ": ", obs[m]) for m in ("eager", "lazy", "lazy2") if m in obs]
    for tag, o in runs:
        if o["kind"].startswith("Leak:"):
            predicted = vec.get("asis", {}).get("kind") == o["kind"] if isinstance(vec.get("asis"), dict) else False
            if predicted and vec.get("devs"):
                oc.known = [d for d in vec["devs"] if d == "DropRowsIndexesScalarFailure"] or list(vec["devs"])
            else:
                oc.mismatches.append("%san internal exception escaped validate: %s %s" % (tag, o["kind"], o.get("msg", "")[:120]))
        if "report_error" in o:
            oc.mismatches.append("%sthe SchemaErrors report could not be built: %s" % (tag, o["report_error"]))
    kinds = sorted({o["kind"] for _, o in runs})
    s = vec["schema"]
    oc.sig = "%s|%s|%s|%s" % (vec["kind"], kinds, s.get("dtype"), vec["data"].get("pd"))
    return oc


PROP = Prop(
    id="C06",
    title="Errors use the documented channel; failures leave no trace (exception safety)",
    slices=[HISTORY, slices.SERIES_PARSE, slices.FRAME_PARSE, SERIES_DROP, slices.CONTAINER, slices.INDEX, FRAME_ROWS_ALL, COMPONENT, MULTIINDEX],
    compare=compare,
    rule=("History.tla gives every container / stand-alone column validation a fault parameter: the k-th invocation of a "
          "user callback (parser fn, vectorised and element-wise check fns, index and frame-level check fns) raises a "
          "ValueError or a SchemaError, for every k up to the number of invocations the specification predicts, eager and "
          "lazy, on passing and failing data. TLC proves FaultsLeaveNoTrace and DocumentedChannel; each history is replayed "
          "with counters in the real callbacks and compared on outcome class, number of invocations, schema fingerprint, "
          "get_config_context() and a snapshot of the caller's frame. In addition every vector of the parse, drop, "
          "container and index slices is replayed and any exception outside the documented channel is a violation. "
          "Distinct = distinct histories containing a fault, and distinct (container, outcome classes, dtypes)."),
    assumptions=["a raising parser propagates the user's own exception (not an internal one); a raising check is a failed check"],
    invariants=["FaultsLeaveNoTrace", "DocumentedChannel", "Outcome kinds of Validate*.tla are within the documented channel"],
)
