"""C06 - errors use the documented channel; failures leave no trace (exception safety)."""
from __future__ import annotations

from typing import Any, Dict

from ..core import Outcome, Prop
from . import slices
from .c05 import HISTORY, make_compare
from .c11 import SERIES_DROP

_history = make_compare(("outcome", "calls", "hidden"), ("input_unchanged", "cfg_unchanged"), only_fault=True)


def compare(vec: Dict[str, Any], obs: Dict[str, Any]) -> Outcome:
    if vec["kind"] == "history":
        return _history(vec, obs)
    # every other explored (schema, data): no internal exception may escape validate
    oc = Outcome()
    runs = [("", obs)] if "kind" in obs else [(m + ": ", obs[m]) for m in ("eager", "lazy", "lazy2") if m in obs]
    for tag, o in runs:
        if o["kind"].startswith("Leak:"):
            predicted = vec.get("asis", {}).get("kind") == o["kind"] if isinstance(vec.get("asis"), dict) else False
            if predicted and vec.get("devs"):
                oc.known = [d for d in vec["devs"] if d == "DropRowsIndexesScalarFailure"] or list(vec["devs"])
            else:
                oc.mismatches.append("%san internal exception escaped validate: %s %s" % (tag, o["kind"], o.get("msg", "")[:120]))
        if "report_error" in o:
            oc.mismatches.append("%sthe SchemaErrors report could not be built: %s" % (tag, o["report_error"]))
    kinds = sorted({o["kind"] for _, o in runs})
    s = vec["schema"]
    oc.sig = "%s|%s|%s|%s" % (vec["kind"], kinds, s.get("dtype"), vec["data"].get("pd"))
    return oc


PROP = Prop(
    id="C06",
    title="Errors use the documented channel; failures leave no trace (exception safety)",
    slices=[HISTORY, slices.SERIES_PARSE, slices.FRAME_PARSE, SERIES_DROP, slices.CONTAINER, slices.INDEX],
    compare=compare,
    rule=("History.tla gives every container / stand-alone column validation a fault parameter: the k-th invocation of a "
          "user callback (parser fn, vectorised and element-wise check fns, index and frame-level check fns) raises a "
          "ValueError or a SchemaError, for every k up to the number of invocations the specification predicts, eager and "
          "lazy, on passing and failing data. TLC proves FaultsLeaveNoTrace and DocumentedChannel; each history is replayed "
          "with counters in the real callbacks and compared on outcome class, number of invocations, schema fingerprint, "
          "get_config_context() and a snapshot of the caller's frame. In addition every vector of the parse, drop, "
          "container and index slices is replayed and any exception outside the documented channel is a violation. "
          "Distinct = distinct histories containing a fault, and distinct (container, outcome classes, dtypes)."),
    assumptions=["a raising parser propagates the user's own exception (not an internal one); a raising check is a failed check"],
    invariants=["FaultsLeaveNoTrace", "DocumentedChannel", "Outcome kinds of Validate*.tla are within the documented channel"],
)
