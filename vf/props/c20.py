"""C20 - head/tail/sample validate exactly the requested rows and return the whole object."""
from __future__ import annotations

from typing import Any, Dict, List

from .. import compare as cmp
from .. import sampling
from ..core import Outcome, Prop, Slice

SERIES_SUB = Slice(
    name="SeriesSubsample",
    module="MC_SeriesSub",
    cfg={"quick": "mc/MC_SeriesSub_quick.cfg", "thorough": "mc/MC_SeriesSub_thorough.cfg"},
    observe=("vf.obs_pandas", "observe_series_run"),
    cap={"quick": 12000, "thorough": 150000},
    prepare=sampling.prepare,
)


def against(vec, exp, obs) -> List[str]:
    out: List[str] = []
    if (exp["kind"] == "ok") != (obs["kind"] == "ok"):
        out.append("with %s the specification predicts %s (the verdict on the selected rows), pandera %s"
                   % (_opts(vec), exp["kind"], obs["kind"]))
    elif obs["kind"] == "ok":
        eq = cmp.fields_equal if vec["kind"].startswith("series") else cmp.frames_equal
        d = eq(exp["returned"], obs["returned"])
        if d:
            out.append("the call did not return the whole object: %s" % d)
    return out


def _opts(vec):
    o = vec["opts"]
    return "head=%s tail=%s sample=%s random_state=%s" % (o["head"], o["tail"], o["sample"], o["random_state"])


def compare(vec: Dict[str, Any], obs: Dict[str, Any]) -> Outcome:
    oc = Outcome()
    o = vec["opts"]
    if o.get("sample"):
        want = o["sel"][len(o["sel"]) - o["sample"]:]
        if obs.get("sample_positions") != want:
            raise RuntimeError("sample table out of date: pandas samples %s, table says %s" % (obs.get("sample_positions"), want))
    mism = against(vec, vec["expect"], obs)
    if mism and vec.get("devs"):
        if not against(vec, vec["asis"], obs):
            oc.known = list(vec["devs"])
            mism = []
    oc.mismatches = mism
    n = len(vec["data"].get("cells", vec["data"].get("idx", [])))
    oc.sig = "%s|n=%d|%s|%s|%s" % (vec["kind"], n, _opts(vec), vec["expect"]["kind"],
                                   "dup" if len(set(map(str, vec["data"]["idx"]))) < n else "uniq")
    return oc


PROP = Prop(
    id="C20",
    title="head/tail/sample validate exactly the requested rows and return the whole object",
    slices=[SERIES_SUB],
    compare=compare,
    rule=("TLC enumerates Series/frames of <=3 (thorough 4) rows with repeated rows and repeated index labels, every head and "
          "tail <= len and the sample positions pandas itself draws for (n, random_state), and proves SubsampleIsSubframe "
          "(verdict = verdict on the explicitly selected rows, whole object returned) and SelectAllIsNoOption. Every run is "
          "replayed with the real head/tail/sample/random_state arguments. Non-trivial = an option is given; distinct = "
          "distinct (length, options, predicted verdict, unique or repeated labels)."),
    assumptions=["sampled positions are an environment input obtained from pandas' own sample(); each worker re-checks them"],
    invariants=["SubsampleIsSubframe", "SelectAllIsNoOption", "LazyEagerAgree"],
)
