"""C20 - head/tail/sample validate exactly the requested rows and return the whole object."""
from __future__ import annotations

from typing import Any, Dict, List

from .. import compare as cmp
from .. import sampling
from ..core import Outcome, Prop, Slice

SERIES_SUB = Slice(
    name="SeriesSubsample",
    module="MC_SeriesSub",
    cfg={"quick": "mc/MC_SeriesSub_quick.cfg", "thorough": "mc/MC_SeriesSub_thorough.cfg"},
    observe=("vf.obs_pandas", "observe_series_run"),
    cap={"quick": 12000, "thorough": 150000},
    prepare=sampling.prepare,
)


def against(vec, exp, obs) -> List[str]:
    out: List[str] = []
    if (exp["kind"] == "ok") != (obs["kind"] == "ok"):
        out.append("with %s the specification predicts %s (the verdict on the selected rows), pandera %s"
                   % (_opts(vec), exp["kind"], obs["kind"]))
    elif obs["kind"] == "ok":
        eq = cmp.fields_equal if vec["kind"].startswith("series") else cmp.frames_equal
        d = eq(exp["returned"], obs["returned"])
        if d:
            out.append("the call did not return the whole object: %s" % d)
    return out


def _opts(vec):
    o = vec["opts"]
    return "head=%s tail=%s sample=%s random_state=%s" % (o["head"], o["tail"], o["sample"], o["random_state"])


FRAME_ROWS = Slice(
    name="FrameRows.subsample",
    module="FrameRows",
    cfg={"quick": "mc/MC_FrameRows_quick.cfg", "thorough": "mc/MC_FrameRows_thorough.cfg"},
    observe=("vf.obs_rows", "observe_rows"),
    cap={"quick": 10000, "thorough": 120000},
    select=lambda v: v.get("mode") == "subsample",
)


def compare_rows(vec: Dict[str, Any], obs: Dict[str, Any]) -> Outcome:
    """DataFrameSchema level, pandas and polars (FrameRows.tla)"""
    oc = Outcome()
    exp = vec["expect"]
    mism = []
    if obs["kind"].startswith("Leak"):
        mism.append("%s %s: %s (%s)" % (vec["backend"], vec["mode"], obs["kind"], obs.get("msg", "")[:80]))
    elif obs["kind"] != exp["kind"]:
        mism.append("%s %s head=%s tail=%s: specification predicts %s, pandera %s %s"
                    % (vec["backend"], vec["mode"], vec["head"], vec["tail"], exp["kind"], obs["kind"], obs.get("reasons", "")))
    elif obs["kind"] == "ok" and obs["kept"] != exp["kept"]:
        mism.append("%s %s: rows returned %s, specification %s" % (vec["backend"], vec["mode"], obs["kept"], exp["kept"]))
    if mism and vec.get("devs") and obs["kind"] == vec["asis"] and (vec["mode"] != "drop" or obs.get("kept") == vec["asis_kept"]):
        oc.known = list(vec["devs"])
        mism = []
    oc.mismatches = mism
    s = vec["schema"]
    oc.sig = "rows|%s|%s|%s|%s|%s|n=%d|%s" % (vec["backend"], vec["mode"], sorted(s.items()), vec["head"], vec["tail"], len(vec["a"]), exp["kind"])
    return oc


def compare(vec: Dict[str, Any], obs: Dict[str, Any]) -> Outcome:
    if vec.get("kind") == "rows":
        return compare_rows(vec, obs)
    oc = Outcome()
    o = vec["opts"]
    if o.get("sample"):
        want = o["sel"][len(o["sel"]) - o["sample"]:]
        if obs.get("sample_positions") != want:
            raise RuntimeError("sample table out of date: pandas samples %s, table says %s" % (obs.get("sample_positions"), want))
    mism = against(vec, vec["expect"], obs)
    if mism and vec.get("devs"):
        if not against(vec, vec["asis"], obs):
            oc.known = list(vec["devs"])
            mism = []
    oc.mismatches = mism
    n = len(vec["data"].get("cells", vec["data"].get("idx", [])))
    oc.sig = "%s|n=%d|%s|%s|%s" % (vec["kind"], n, _opts(vec), vec["expect"]["kind"],
                                   "dup" if len(set(map(str, vec["data"]["idx"]))) < n else "uniq")
    return oc


PROP = Prop(
    id="C20",
    title="head/tail/sample validate exactly the requested rows and return the whole object",
    slices=[SERIES_SUB, FRAME_ROWS],
    compare=compare,
    rule=("TLC enumerates Series/frames of <=3 (thorough 4) rows with repeated rows and repeated index labels, every head and "
          "tail <= len and the sample positions pandas itself draws for (n, random_state), and proves SubsampleIsSubframe "
          "(verdict = verdict on the explicitly selected rows, whole object returned) and SelectAllIsNoOption. Every run is "
          "replayed with the real head/tail/sample/random_state arguments; the Series slice also has an index component with "
          "unique=True (shown the selected rows only). FrameRows.tla does the same at DataFrameSchema level on pandas and polars "
          "(head, tail, a sample of all rows) under every index / column labelling. Non-trivial = an option is given; distinct = "
          "distinct (length, options, predicted verdict, unique or repeated labels)."),
    assumptions=["sampled positions are an environment input obtained from pandas' own sample(); each worker re-checks them"],
    invariants=["SubsampleIsSubframe", "SelectAllIsNoOption", "LazyEagerAgree"],
)
