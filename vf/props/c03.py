"""C03 - whatever validate returns conforms to the schema (parse postcondition)."""
from __future__ import annotations

from typing import Any, Dict, List

from .. import compare as cmp
from ..core import Outcome, Prop
from .component import COMPONENT, MULTIINDEX, compare_c03 as _component, compare_mi_c03 as _multiindex
from . import c08 as _c08

# the parse pipeline of the polars back end (and of pandas, same vectors): the backend-neutral container slice
NEUTRAL_PARSE = _c08.sl("container")
from . import slices
from .c11 import SERIES_DROP


def _eq(kind: str, a, b):
    return (cmp.fields_equal if kind.startswith("series") else cmp.frames_equal)(a, b)


def against(vec: Dict[str, Any], exp: Dict[str, Any], obs: Dict[str, Any]) -> List[str]:
    out: List[str] = []
    if (exp["kind"] == "ok") != (obs["kind"] == "ok"):
        out.append("specification predicts %s, pandera %s" % (exp["kind"], obs["kind"]))
        return out
    if exp["kind"] == "ok":
        d = _eq(vec["kind"], exp["returned"], obs["returned"])
        if d:
            out.append("returned object differs from the predicted parse result: %s" % d)
    return out


def compare(vec: Dict[str, Any], obs: Dict[str, Any]) -> Outcome:
    if vec.get("kind") == "component":
        return _component(vec, obs)
    if vec.get("kind") == "multiindex":
        return _multiindex(vec, obs)
    if vec.get("kind") == "neutral":
        return _c08.compare(vec, obs)
    oc = Outcome()
    mism = against(vec, vec["expect"], obs)
    # post-conditions observed on the implementation itself
    if obs["kind"] == "ok":
        if "post_error" in obs:
            mism.append("re-validation of the returned object failed to run: %s" % obs["post_error"])
        else:
            if not obs.get("stripped_accepts", True):
                mism.append("the returned object is rejected by the same schema with parsing switched off (%s)" % obs.get("stripped_kind"))
            if obs.get("again_kind") != "ok":
                mism.append("validating the returned object again does not succeed (%s)" % obs.get("again_kind"))
            elif obs.get("again_returned") is not None:
                d = _eq(vec["kind"], obs["returned"], obs["again_returned"])
                if d:
                    mism.append("validating the returned object again changes it: %s" % d)
    devs = vec.get("devs") or []
    if mism and devs:
        m2 = against(vec, vec["asis"], obs)
        if not m2:
            oc.known = list(devs)
            mism = []
    oc.mismatches = mism
    s = vec["schema"]
    parsing = bool(s.get("coerce")) or (("default" in s) and s["default"][0] != "na") or s.get("addmiss") or s.get("strict") == "filter" \
        or (isinstance(s.get("index"), dict) and s["index"].get("coerce")) or any(c.get("coerce") or c.get("default", ["na"])[0] != "na" for c in s.get("cols", []))
    if parsing and vec["expect"]["kind"] == "ok":
        oc.sig = "%s|%s|%s|%s|%s" % (vec["kind"], s.get("dtype"), vec["data"].get("pd"), s.get("coerce"),
                                     (s.get("index") or {}).get("coerce") if isinstance(s.get("index"), dict) else None) \
                 + "|" + str([c[0] for c in vec["data"].get("cells", [])])
    return oc


PROP = Prop(
    id="C03",
    title="Whatever validate returns conforms to the schema (parse postcondition)",
    slices=[slices.SERIES_PARSE, slices.FRAME_PARSE, SERIES_DROP, COMPONENT, MULTIINDEX, NEUTRAL_PARSE],
    compare=compare,
    rule=("TLC explores the parse pipeline (default filling, coercion, index coercion; frames: add_missing_columns, "
          "strict='filter') and proves ParsePostcondition and ParseFixpoint on the specification; every run is replayed, "
          "the returned object compared with the predicted one, and the real output is re-submitted to the real "
          "validate of the stripped schema and of the same schema. Non-trivial = a parsing option is on and the call "
          "returns; distinct = distinct (container, target dtype, physical dtype, options, cell kinds)."),
    assumptions=[
        "element-level coercion table is pinned by replay (C10 checks the table itself)",
        "custom parsers are limited to the idempotent members of the named family",
    ],
    invariants=["ParsePostcondition", "ParseFixpoint", "CoercionFacts", "LazyEagerAgree"],
)
