"""C04 - validation never modifies the caller's data unless inplace=True; container kind preserved."""
from __future__ import annotations

from dataclasses import replace
from typing import Any, Dict

from .. import compare as cmp
from ..core import Outcome, Prop
from .component import COMPONENT, MULTIINDEX, compare_c04 as _component, compare_mi_c04 as _multiindex
from .c06 import FRAME_ROWS_ALL
from . import slices


def compare(vec: Dict[str, Any], obs: Dict[str, Any]) -> Outcome:
    if vec.get("kind") == "component":
        return _component(vec, obs)
    if vec.get("kind") == "multiindex":
        return _multiindex(vec, obs)
    if vec.get("kind") == "rows":
        oc = Outcome()
        who = "%s DataFrameSchema.validate" % vec["backend"]
        if obs["kind"] == "ok" and not obs.get("type_ok", True):
            oc.mismatches.append("%s returned another container kind than it was given" % who)
        if obs.get("lazyframe_type_ok", True) is not True:
            oc.mismatches.append("%s on a LazyFrame did not return a LazyFrame (%s)" % (who, obs["lazyframe_type_ok"]))
        if obs.get("column_type_ok", True) is not True:
            if obs["column_type_ok"] is False:
                oc.known = ["PolarsColumnReturnsLazyFrame"]
            else:
                oc.mismatches.append("polars Column.validate(DataFrame): %s" % obs["column_type_ok"])
        oc.sig = "rows|%s|%s|%s" % (vec["backend"], vec["mode"], obs["kind"])
        return oc
    oc = Outcome()
    runs = [("", obs)] if "kind" in obs else [(m + ": ", obs[m]) for m in ("eager", "lazy") if m in obs]
    inplace = bool(vec.get("opts", {}).get("inplace"))
    devs = vec.get("devs") or []
    for tag, o in runs:
        mism = []
        if not inplace and not o["input_unchanged"]:
            mism.append("%sthe caller's object was modified by validate(inplace=False), outcome %s" % (tag, o["kind"]))
        if o["kind"] == "ok" and o.get("type") and o.get("input_type") and o["type"] != o["input_type"]:
            mism.append("%sreturned a %s for a %s" % (tag, o["type"], o["input_type"]))
        if mism and devs and "asis" in vec:
            # the shipped code is predicted to write the caller's object here
            exp_after = vec["asis"]["input_after"]
            same = (cmp.fields_equal if vec["kind"].startswith("series") else cmp.frames_equal)(exp_after, o["input_after"]) is None
            changed = vec["asis"]["input_after"] != vec["data"]
            if same and changed:
                oc.known = list(devs)
                mism = []
        oc.mismatches += mism
    s = vec["schema"]
    if vec["kind"].endswith("_run"):
        outcome = obs["kind"]
        oc.sig = "%s|%s|%s|%s|%s" % (vec["kind"], outcome, vec["opts"], s.get("coerce"), vec["data"].get("pd"))
    else:
        oc.sig = "%s|%s" % (vec["kind"], vec["expect"].get("sat"))
    return oc


PROP = Prop(
    id="C04",
    title="Validation never modifies the caller's data unless inplace=True",
    slices=[slices.SERIES_PARSE, slices.FRAME_PARSE, slices.SERIES, COMPONENT, MULTIINDEX, FRAME_ROWS_ALL, slices.CONTAINER, slices.INDEX,
            # the columns / joint-uniqueness slices add verdict shapes, not aliasing paths: thorough tier only
            replace(slices.COLUMNS, tiers=("thorough",)), replace(slices.JOINT, tiers=("thorough",))],
    compare=compare,
    rule=("The pipeline specification models aliasing explicitly (Preprocess sets aliased := inplace; every in-place stage "
          "writes through Write); TLC proves NoCallerMutation for every explored run. Each run is replayed with a deep "
          "bit-level snapshot of the argument before and after on the pass, eager-fail and lazy-fail paths, and the type "
          "of the result is compared with the type of the input. Distinct = distinct (container, outcome, options, "
          "coercion, physical dtype)."),
    assumptions=["snapshot = dtype(s), values as bytes (object columns: type+repr), labels, names, index identity"],
    invariants=["NoCallerMutation"],
)
