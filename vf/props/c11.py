"""C11 - drop_invalid_rows removes exactly the rows that violate a row-level constraint."""
from __future__ import annotations

from typing import Any, Dict, List

from .. import compare as cmp
from ..core import Outcome, Prop, Slice

SERIES_DROP = Slice(
    name="SeriesDrop",
    module="MC_Series",
    cfg={"quick": "mc/MC_SeriesDrop_quick.cfg", "thorough": "mc/MC_SeriesDrop_thorough.cfg"},
    observe=("vf.obs_pandas", "observe_series_run"),
    cap={"quick": 12000, "thorough": 150000},
)


def klass(kind: str) -> str:
    if kind in ("SchemaError", "SchemaErrors"):
        return "raises"
    return kind


def against(vec, exp, obs) -> List[str]:
    out: List[str] = []
    if klass(exp["kind"]) != klass(obs["kind"]):
        out.append("specification predicts %s, pandera %s%s" % (exp["kind"], obs["kind"],
                                                                 (" (" + obs.get("msg", "")[:80] + ")") if obs["kind"].startswith("Leak") else ""))
    elif obs["kind"] == "ok":
        eq = cmp.fields_equal if vec["kind"].startswith("series") else cmp.frames_equal
        d = eq(exp["returned"], obs["returned"])
        if d:
            out.append("surviving rows differ from the rows that satisfy every row-level constraint: %s" % d)
    return out


FRAME_ROWS = Slice(
    name="FrameRows.drop",
    module="FrameRows",
    cfg={"quick": "mc/MC_FrameRows_quick.cfg", "thorough": "mc/MC_FrameRows_thorough.cfg"},
    observe=("vf.obs_rows", "observe_rows"),
    cap={"quick": 10000, "thorough": 120000},
    select=lambda v: v.get("mode") == "drop",
)


def compare_rows(vec: Dict[str, Any], obs: Dict[str, Any]) -> Outcome:
    """DataFrameSchema level, pandas and polars (FrameRows.tla)"""
    oc = Outcome()
    exp = vec["expect"]
    mism = []
    if obs["kind"].startswith("Leak"):
        mism.append("%s %s: %s (%s)" % (vec["backend"], vec["mode"], obs["kind"], obs.get("msg", "")[:80]))
        if "DropEvalsMultiIndexLabels" in (vec.get("devs") or []) and obs["kind"] == vec["asis"]:
            oc.known = ["DropEvalsMultiIndexLabels"]
            oc.mismatches = []
            oc.sig = "rows|leak|%s" % sorted(vec["schema"].items())
            return oc
    elif obs["kind"] != exp["kind"]:
        mism.append("%s %s head=%s tail=%s: specification predicts %s, pandera %s %s"
                    % (vec["backend"], vec["mode"], vec["head"], vec["tail"], exp["kind"], obs["kind"], obs.get("reasons", "")))
    elif obs["kind"] == "ok" and obs["kept"] != exp["kept"]:
        mism.append("%s %s: rows returned %s, specification %s" % (vec["backend"], vec["mode"], obs["kept"], exp["kept"]))
    if mism and vec.get("devs") and obs["kind"] == vec["asis"] and (vec["mode"] != "drop" or obs.get("kept") == vec["asis_kept"]):
        oc.known = list(vec["devs"])
        mism = []
    oc.mismatches = mism
    s = vec["schema"]
    oc.sig = "rows|%s|%s|%s|%s|%s|n=%d|%s" % (vec["backend"], vec["mode"], sorted(s.items()), vec["head"], vec["tail"], len(vec["a"]), exp["kind"])
    return oc


def compare(vec: Dict[str, Any], obs: Dict[str, Any]) -> Outcome:
    if vec.get("kind") == "rows":
        return compare_rows(vec, obs)
    oc = Outcome()
    mism = against(vec, vec["expect"], obs)
    if mism and vec.get("devs"):
        if not against(vec, vec["asis"], obs):
            oc.known = list(vec["devs"])
            mism = []
    oc.mismatches = mism
    exp = vec["expect"]
    if vec["opts"]["lazy"]:
        n = len(vec["data"].get("cells", vec["data"].get("idx", [])))
        kept = len(exp["returned"].get("cells", exp["returned"].get("idx", []))) if exp["kind"] == "ok" else -1
        s = vec["schema"]
        if n > 0:
            oc.sig = "%s|n=%d|kept=%d|%s|%s|%s|%s" % (vec["kind"], n, kept, s.get("dtype"), s.get("nullable"), s.get("unique"),
                                                      [c["k"] for c in s.get("checks", [])])
    return oc


PROP = Prop(
    id="C11",
    title="drop_invalid_rows removes exactly the rows that violate a row-level constraint",
    slices=[SERIES_DROP, FRAME_ROWS],
    compare=compare,
    rule=("TLC enumerates schemas with drop_invalid_rows=True (nullability, uniqueness with each report_duplicates setting, "
          "one or two checks, dtype mismatch as a non-row violation) x data with unique default and shuffled index labels, "
          "lazy and eager, and proves DropIsExact (result = rows on which every row-level constraint holds, original order), "
          "ParsePostcondition and ParseFixpoint; every run is replayed and the surviving rows compared by value and label. "
          "Non-trivial = lazy run on non-empty data; distinct = distinct (length, rows kept, constraints)."),
    assumptions=["unique index labels (the property's precondition)"],
    invariants=["DropIsExact", "ParsePostcondition", "ParseFixpoint"],
)
