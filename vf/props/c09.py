"""C09 - data type resolution is coherent in every engine (code -> spec)."""
from __future__ import annotations

import json
import os
import re
import subprocess
import sys
import tempfile
from concurrent.futures import ThreadPoolExecutor
from typing import Any, Dict, List

from .. import tlc
from ..core import Outcome, Prop, Run, known_ids, write_replay

ENGINES = {"quick": ["numpy", "pandas", "pandas+pyarrow", "polars", "pyspark"],
           "thorough": ["numpy", "pandas", "pandas+pyarrow", "polars", "pyspark"]}
# laws that are stated by the property; the others are reported as anomalies in the evidence only
PROPERTY_LAWS = {"Resolves", "Idempotent", "EquivalentsEqual", "EquivalentsNotSplit", "PrintRoundTrip", "SelfCheck", "CrossKind"}
BINDING_LAWS = {"RegistryIsHistory", "ResolutionConforms"}
ANOMALY_LAWS = {"EqualImpliesHash", "DeclaredIsNative"}


def _record(engine: str, params_path: str, out_dir: str) -> Dict[str, Any]:
    out = os.path.join(out_dir, "dt_%s.json" % engine.replace("+", "_"))
    env = dict(os.environ)
    env.update({"PANDERA_VERIF": "1", "PYTHONHASHSEED": "0", "PYTHONWARNINGS": "ignore"})
    p = subprocess.run([sys.executable, "-m", "vf.rec_dtypes", out, engine, params_path], cwd=str(tlc.ROOT), env=env,
                       stdout=subprocess.PIPE, stderr=subprocess.STDOUT, text=True, timeout=900)
    if p.returncode != 0 or not os.path.exists(out):
        raise tlc.MachineryError("dtype recorder failed for %s:\n%s" % (engine, p.stdout[-3000:]))
    return json.loads(open(out).read())[0]


def _matches(f: Dict[str, Any], engine: str, law: str, w: Dict[str, Any]) -> bool:
    if law != f.get("law") or engine not in f.get("engines", []):
        return False
    for fld, rx in f.get("match", {}).items():
        if not re.search(rx, str(w.get(fld, ""))):
            return False
    return True


def laws(run: Run, only_engine: str | None = None) -> None:
    tier = run.tier
    res = tlc.run_tlc("Dtypes", "mc/MC_Dtypes_params_%s.cfg" % tier, workers=1)
    params = [v["p"] for v in res.vectors if v.get("kind") == "param"]
    if not params:
        raise tlc.MachineryError("Dtypes.tla enumerated no parameterisations")
    run.states += res.distinct_states
    run.transitions += res.states_generated
    tmp = tempfile.mkdtemp(prefix="vf-dtypes-")
    try:
        ppath = os.path.join(tmp, "params.json")
        with open(ppath, "w") as fh:
            json.dump(params, fh)
        engines = [e for e in ENGINES[tier] if only_engine in (None, e)]
        with ThreadPoolExecutor(max_workers=len(engines)) as ex:
            docs = list(ex.map(lambda e: _record(e, ppath, tmp), engines))
        tpath = os.path.join(tmp, "tables.json")
        with open(tpath, "w") as fh:
            json.dump(docs, fh)
        res = tlc.run_tlc("Dtypes", "mc/MC_Dtypes_laws.cfg", workers=max(2, len(engines)), env={"DTYPES_FILE": tpath},
                          timeout=1800)
    finally:
        import shutil

        shutil.rmtree(tmp, ignore_errors=True)
    if res.invariant_violated:
        raise tlc.MachineryError("Dtypes.tla: %s violated:\n%s" % (res.invariant_violated, "\n".join(res.error_trace[:40])))
    run.states += res.distinct_states
    run.transitions += res.states_generated
    tables = {v["engine"]: v for v in res.vectors if v.get("kind") == "table"}
    if set(tables) != set(engines):
        raise tlc.MachineryError("TLC did not reach the resolved state for every engine: %s" % sorted(tables))
    known = known_ids("C09")
    per_engine: Dict[str, Any] = {}
    for d in docs:
        t = tables[d["engine"]]
        per_engine[d["engine"]] = {k: t[k] for k in ("keys", "types", "events", "pairs", "accepted", "modelled",
                                                      "physical", "primitive", "reached")}
        # every key, every reached type and every ordered pair is one evaluated case
        run.traces += t["keys"] + t["pairs"]
        for k, r in zip(d["keys"], d["res"]):
            if r:
                o = d["objs"][r - 1]
                run.sigs.add("%s|%s|%s" % (d["engine"], k["form"], o["cls"]))
    nlaws = 0
    for v in res.vectors:
        if v.get("kind") != "law":
            continue
        nlaws += 1
        eng, law = v["engine"], v["law"]
        for w in v["bad"]:
            if law in ANOMALY_LAWS:
                key = "%s:%s" % (law, eng)
                run.anomalies[key] = run.anomalies.get(key, 0) + 1
                continue
            hit = [fid for fid, f in known.items() if _matches(f, eng, law, w)]
            if hit:
                run.known_hits[hit[0]] = run.known_hits.get(hit[0], 0) + 1
                continue
            what = ("the specification's registry/resolution model does not describe the code" if law in BINDING_LAWS
                    else "law %s of the property fails" % law)
            path = write_replay("C09", {"property": "C09", "engine": eng, "law": law, "witness": w}) \
                if len(run.violations) < 25 else ""
            run.violations.append(("%s engine: %s: %s" % (eng, what, json.dumps(w, sort_keys=True)[:300]), path))
    if nlaws != 11 * len(engines):
        raise tlc.MachineryError("expected %d law verdicts from TLC, got %d" % (11 * len(engines), nlaws))
    run.extra_cov["tables"] = per_engine
    run.extra_cov["laws_evaluated_by_tlc"] = sorted(PROPERTY_LAWS | BINDING_LAWS | ANOMALY_LAWS)
    run.extra_cov["parameterisations"] = len(params)
    run.exhaustive = True
    d0 = docs[0]
    run.samples.append({"engine": d0["engine"], "registration_event": d0["events"][0],
                        "keys": [k["sp"] for k in d0["keys"][:6]],
                        "resolved": [d0["objs"][r - 1]["cls"] if r else d0["errs"][i] for i, r in enumerate(d0["res"][:6])]})
    run.samples.append({"parameterisation": params[len(params) // 2]})


def compare(vec: Dict[str, Any], obs: Dict[str, Any]) -> Outcome:      # no vector slices
    return Outcome()


def replay(payload: Dict[str, Any]) -> int:
    """re-record the engine of the witness and report whether the same witness is still produced"""
    run = Run(prop=PROP, tier="quick", seed=0)
    laws(run, only_engine=payload["engine"])
    want = json.dumps(payload["witness"], sort_keys=True)[:300]
    still = [m for m, _ in run.violations if want in m]
    print(json.dumps({"engine": payload["engine"], "law": payload["law"], "witness": payload["witness"],
                      "still_fails": bool(still)}, indent=1))
    return 1 if still else 0


PROP = Prop(
    technique='explicit TLA+ specification (registry state machine + laws) evaluated by TLC over tables recorded from the implementation (code->spec conformance); parameterisations enumerated by TLC',
    id="C09",
    title="Data type resolution is coherent in every engine",
    slices=[],
    compare=compare,
    extra=laws,
    replay=replay,
    rule=("Dtypes.tla models an engine's registry as state built by the register_dtype events of the real import "
          "(recorded by a profile hook in a fresh interpreter per engine: numpy, pandas, pandas after the lazy import of "
          "pyarrow_engine, polars, pyspark). TLC replays the history into the model registry (action property Monotone), "
          "binds it to the code (RegistryIsHistory: model registry = real registry; ResolutionConforms: the class "
          "predicted by the modelled resolution order = the class Engine.dtype returned, for every key the order decides) "
          "and evaluates the laws over the whole recorded table: every registry key, every registered class, every abstract "
          "pandera type, every parameterisation enumerated by TLC (time zones x units, categories x ordered, decimal "
          "precision x scale, string storage, arrow types, nested inner types), every reached type and every ordered pair "
          "of types (==, hash, check, printed name resolved again). Evaluations = keys + ordered pairs; distinct = distinct "
          "(engine, key form, resolved class)."),
    assumptions=["the native kind/signedness/width of a type is read from the boxed numpy/pandas/pyarrow/polars/pyspark "
                 "dtype by the recorder (representation only)",
                 "parameterisations are sampled from the small sets in MC_Dtypes_params_*.cfg"],
    invariants=["Monotone", "RegistryIsHistory", "ResolutionConforms", "EquivalentsNotSplit", "Resolves", "Idempotent",
                "EquivalentsEqual", "PrintRoundTrip", "SelfCheck", "CrossKind"],
)
