"""`check --coverage`: anti-vacuity.  Runs every quick configuration with TLC's `-coverage 1` and lists the actions
(top-level disjuncts of Next) that were never taken: a property checked over behaviours in which an action never fires
was not exercised for that action.  Exit 0 when every action of every module fired, 1 otherwise."""
from __future__ import annotations

import re
import sys
from pathlib import Path

from . import tlc

EXTRA = [("Strategy", "mc/MC_Strategy_quick.cfg"), ("Coerce", "mc/MC_Coerce_enum_quick.cfg"), ("Dtypes", "mc/MC_Dtypes_params_quick.cfg"),
         ("MC_Threads", "mc/MC_Threads_design.cfg"), ("MC_Threads", "mc/MC_Threads_shipped_distinct.cfg")]


def configurations():
    from .props import registry

    seen = []
    for _pid, prop in sorted(registry().items()):
        for sl in prop.slices:
            item = (sl.module, sl.cfg["quick"], tuple(sorted(sl.env.items())))
            if item not in seen and sl.prepare is None:
                seen.append(item)
    return [(m, c, dict(e)) for m, c, e in seen] + [(m, c, {}) for m, c in EXTRA]


def main() -> int:
    bad = 0
    for mod, cfg, env in configurations():
        try:
            res = tlc.run_tlc(mod, cfg, workers=8, coverage=True, sink=lambda v, n: None, timeout=1500, env=env)
        except tlc.MachineryError as exc:
            print("coverage: %s %s: TLC failed: %s" % (mod, cfg, str(exc)[-200:]))
            bad += 1
            continue
        zero = sorted(a for a, n in res.coverage.items() if n == 0)
        print("coverage: %-14s %-36s states=%-9d actions=%d never-taken=%s" % (mod, cfg, res.distinct_states, len(res.coverage), zero or "none"))
        bad += len(zero)
    return 1 if bad else 0


if __name__ == "__main__":
    sys.exit(main())
