"""The sampled positions are an environment input of the specification (Frames: Select).

They are obtained from the dataframe library's own sample(n, random_state=r) on a position-valued
Series - no pandera code is involved - and handed to TLC as a JSON table.
"""
from __future__ import annotations

import json
import os
import tempfile
from typing import Dict


def table(maxlen: int, maxn: int = 2, seeds=(0, 1, 2)):
    import pandas as pd

    rows = []
    for n in range(1, maxlen + 1):
        for k in range(1, min(maxn, n) + 1):
            for r in seeds:
                pos = pd.Series(range(n)).sample(k, random_state=r).tolist()
                rows.append([n, k, r, [int(p) + 1 for p in pos]])
    return rows


def prepare(tier: str, seed: int) -> Dict[str, str]:
    maxlen = 3 if tier == "quick" else 4
    seeds = (seed % 1000, (seed + 1) % 1000) if tier == "quick" else (seed % 1000, (seed + 1) % 1000, (seed + 7) % 1000)
    fd, path = tempfile.mkstemp(prefix="vf-sample-", suffix=".json")
    with os.fdopen(fd, "w") as fh:
        json.dump(table(maxlen, seeds=seeds), fh)
    return {"VF_SAMPLE_TABLE": path}
