"""C09 recorder (code -> spec): registration history and resolution observations of one dtype engine.

Run in a fresh interpreter: ``python -m vf.rec_dtypes <out.json> <engine> <params.json>``.

A profile hook (harness-side, nothing in /repo changes) records every call of
``Engine._register_equivalents`` and every return of
``Engine._register_from_parametrized_dtype`` while pandera is imported: that is the
registration history the specification replays into its model registry.  Afterwards
every key of the registry, every registered class, every parameterisation TLC
enumerated (params.json) and every printed name is resolved with the real
``Engine.dtype`` and the raw observations (resolved object, ==, hash, str, check, the
native dtype's kind/signedness/width) are written out.  No law is evaluated here.
"""
from __future__ import annotations

import inspect
import json
import sys
import warnings
from typing import Any, Dict, List, Optional, Tuple

HISTORY: List[Tuple[Any, Any, str, List[Any]]] = []


def _profile(frame, event, arg):
    code = frame.f_code
    if event == "call" and code.co_name == "_register_equivalents" and code.co_filename.endswith("engines/engine.py"):
        loc = frame.f_locals
        HISTORY.append((loc["cls"], loc["pandera_dtype_cls"], "equiv", list(loc["source_dtypes"])))
    elif event == "return" and code.co_name == "_register_from_parametrized_dtype" and code.co_filename.endswith("engines/engine.py"):
        loc = frame.f_locals
        if "dtypes" in loc:
            HISTORY.append((loc["cls"], loc["pandera_dtype_cls"], "dispatch", list(loc["dtypes"])))


def clsname_of(c: Any) -> str:
    return "%s.%s" % (c.__module__.split(".")[-1], c.__qualname__)


def spelling(k: Any) -> str:
    if isinstance(k, str):
        return repr(k)
    if inspect.isclass(k):
        return "%s.%s" % (k.__module__, k.__qualname__)
    if inspect.isfunction(k) or inspect.isbuiltin(k):
        return "%s.%s" % (getattr(k, "__module__", "?"), getattr(k, "__qualname__", repr(k)))
    r = repr(k)
    return "%s:%s" % (type(k).__module__.split(".")[0], r)


def struct_key(o: Any) -> Tuple:
    """structural identity of a resolved DataType, independent of its __eq__/__hash__"""
    d = []
    for k, v in sorted(getattr(o, "__dict__", {}).items()):
        d.append((k, repr(v)))
    return (type(o).__module__, type(o).__qualname__, tuple(d), repr(getattr(o, "type", None)))


# ---------------------------------------------------------------------------------------
# classification of the NATIVE dtype boxed by a resolved type (representation facts only)

def native_sig(o: Any) -> Tuple[str, int, int]:
    """(kind, signed, bits) read off the native dtype, not off pandera's own attributes"""
    t = getattr(o, "type", None)
    mod = type(o).__module__
    try:
        import numpy as np
    except Exception:  # noqa: BLE001
        np = None
    if "polars_engine" in mod:
        return _polars_sig(t)
    if "pyspark_engine" in mod:
        return _spark_sig(t)
    if "pyarrow_engine" in mod or type(t).__name__ == "ArrowDtype":
        pt = getattr(t, "pyarrow_dtype", t)
        return _arrow_sig(pt)
    return _np_pd_sig(t)


def _np_pd_sig(t: Any) -> Tuple[str, int, int]:
    import numpy as np
    import pandas as pd

    if isinstance(t, np.dtype):
        k = t.kind
        bits = t.itemsize * 8
        if k == "i":
            return ("int", 1, bits)
        if k == "u":
            return ("int", 0, bits)
        if k == "f":
            return ("float", 1, bits)
        if k == "c":
            return ("complex", 1, bits)
        if k == "b":
            return ("bool", 0, 8)
        if k == "M":
            return ("datetime", 0, 0)
        if k == "m":
            return ("timedelta", 0, 0)
        if k == "O":
            return ("object", 0, 0)
        if k in "U":
            return ("str", 0, 0)
        if k in "S":
            return ("bytes", 0, 0)
        return ("other:" + k, 0, 0)
    if isinstance(t, pd.DatetimeTZDtype):
        return ("datetime", 0, 0)
    if isinstance(t, pd.CategoricalDtype):
        return ("category", 0, 0)
    if isinstance(t, pd.StringDtype):
        return ("str", 0, 0)
    if isinstance(t, pd.BooleanDtype):
        return ("bool", 0, 8)
    if isinstance(t, (pd.PeriodDtype, pd.IntervalDtype, pd.SparseDtype)):
        return ("other:" + type(t).__name__, 0, 0)
    nd = getattr(t, "numpy_dtype", None)
    if isinstance(nd, np.dtype) and type(t).__module__.startswith("pandas"):
        return _np_pd_sig(nd)
    return ("other:" + type(t).__name__, 0, 0)


def _arrow_sig(pt: Any) -> Tuple[str, int, int]:
    import pyarrow as pa

    if not isinstance(pt, pa.DataType):
        return ("other:" + type(pt).__name__, 0, 0)
    ty = pa.types
    if ty.is_boolean(pt):
        return ("bool", 0, 8)
    if ty.is_signed_integer(pt):
        return ("int", 1, pt.bit_width)
    if ty.is_unsigned_integer(pt):
        return ("int", 0, pt.bit_width)
    if ty.is_floating(pt):
        return ("float", 1, pt.bit_width)
    if ty.is_timestamp(pt):
        return ("datetime", 0, 0)
    if ty.is_duration(pt):
        return ("timedelta", 0, 0)
    if ty.is_date(pt):
        return ("date", 0, pt.bit_width)
    if ty.is_time(pt):
        return ("time", 0, pt.bit_width)
    if ty.is_string(pt) or ty.is_large_string(pt):
        return ("str", 0, 0)
    if ty.is_dictionary(pt):
        return ("category", 0, 0)
    return ("other:" + str(pt).split("[")[0].split("(")[0].split("<")[0], 0, 0)


def _polars_sig(t: Any) -> Tuple[str, int, int]:
    import polars as pl

    base = t if inspect.isclass(t) else type(t)
    name = base.__name__
    ints = {"Int8": 8, "Int16": 16, "Int32": 32, "Int64": 64, "Int128": 128}
    uints = {"UInt8": 8, "UInt16": 16, "UInt32": 32, "UInt64": 64}
    if name in ints:
        return ("int", 1, ints[name])
    if name in uints:
        return ("int", 0, uints[name])
    if name in ("Float32", "Float64"):
        return ("float", 1, int(name[5:]))
    if name == "Boolean":
        return ("bool", 0, 8)
    if name in ("String", "Utf8"):
        return ("str", 0, 0)
    if name == "Datetime":
        return ("datetime", 0, 0)
    if name == "Duration":
        return ("timedelta", 0, 0)
    if name == "Date":
        return ("date", 0, 0)
    if name == "Time":
        return ("time", 0, 0)
    if name in ("Categorical", "Enum"):
        return ("category", 0, 0)
    if name == "Object":
        return ("object", 0, 0)
    return ("other:" + name, 0, 0)


def _spark_sig(t: Any) -> Tuple[str, int, int]:
    base = t if inspect.isclass(t) else type(t)
    name = base.__name__
    table = {"ByteType": ("int", 1, 8), "ShortType": ("int", 1, 16), "IntegerType": ("int", 1, 32),
             "LongType": ("int", 1, 64), "FloatType": ("float", 1, 32), "DoubleType": ("float", 1, 64),
             "BooleanType": ("bool", 0, 8), "StringType": ("str", 0, 0), "TimestampType": ("datetime", 0, 0),
             "TimestampNTZType": ("datetime_ntz", 0, 0), "DateType": ("date", 0, 0)}
    return table.get(name, ("other:" + name, 0, 0))


def declared_sig(o: Any) -> Tuple[str, int, int]:
    """(kind, signed, bits) as pandera's own abstract classes and attributes declare it"""
    from pandera import dtypes as D

    bits = getattr(o, "bit_width", None) or 0
    if isinstance(o, D.Bool):
        return ("bool", 0, 8)
    if isinstance(o, D.UInt):
        return ("int", 0, bits)
    if isinstance(o, D.Int):
        return ("int", 1 if getattr(o, "signed", True) else 0, bits)
    if isinstance(o, D.Float):
        return ("float", 1, bits)
    if isinstance(o, D.Complex):
        return ("complex", 1, bits)
    if isinstance(o, D.Timestamp):
        return ("datetime", 0, 0)
    if isinstance(o, D.Timedelta):
        return ("timedelta", 0, 0)
    if isinstance(o, D.Date):
        return ("date", 0, 0)
    if isinstance(o, D.Category):
        return ("category", 0, 0)
    if isinstance(o, D.String):
        return ("str", 0, 0)
    if isinstance(o, D.Decimal):
        return ("decimal", 0, 0)
    return ("none", 0, 0)


PRIMITIVE_KINDS = {"int", "float", "complex", "bool", "str", "object", "datetime", "timedelta", "date", "category"}
PHYSICAL_KINDS = {"int", "float", "complex", "bool", "datetime", "timedelta", "date", "time"}


# ---------------------------------------------------------------------------------------
# parameterised keys: TLC enumerates the parameter vectors, this builds the native spelling

def param_keys(engine: str, p: Dict[str, Any]) -> List[Any]:
    fam = p["family"]
    out: List[Any] = []
    if engine in ("pandas", "numpy"):
        import numpy as np
        import pandas as pd

        if fam == "datetime":
            unit, tz = p["unit"], p["tz"]
            if tz == "none":
                out += ["datetime64[%s]" % unit, np.dtype("datetime64[%s]" % unit)]
            elif engine == "pandas":
                out += [pd.DatetimeTZDtype(unit, tz), "datetime64[%s, %s]" % (unit, tz)]
                from pandera.engines import pandas_engine as PE

                out.append(PE.DateTime(unit=unit, tz=tz))
        elif fam == "timedelta":
            out += ["timedelta64[%s]" % p["unit"], np.dtype("timedelta64[%s]" % p["unit"])]
        elif fam == "category" and engine == "pandas":
            cats = {"none": None, "ab": ["a", "b"], "ba": ["b", "a"], "i12": [1, 2]}[p["cats"]]
            out.append(pd.CategoricalDtype(cats, ordered=p["ordered"]))
            from pandera.engines import pandas_engine as PE
            from pandera import dtypes as D

            out.append(PE.Category(cats, p["ordered"]))
            out.append(D.Category(cats, p["ordered"]))
        elif fam == "decimal" and engine == "pandas":
            from pandera.engines import pandas_engine as PE
            from pandera import dtypes as D

            if p["scale"] <= p["precision"]:
                out.append(PE.Decimal(p["precision"], p["scale"]))
                out.append(D.Decimal(p["precision"], p["scale"]))
        elif fam == "string" and engine == "pandas":
            out += [pd.StringDtype(p["storage"]), "string[%s]" % p["storage"]]
        elif fam == "arrow" and engine == "pandas":
            import pyarrow as pa

            pt = _arrow_type(p)
            if pt is not None:
                out += [pd.ArrowDtype(pt)]
        elif fam == "period" and engine == "pandas":
            out += [pd.PeriodDtype(p["freq"]), "period[%s]" % p["freq"]]
        elif fam == "interval" and engine == "pandas":
            out += [pd.IntervalDtype(p["sub"]), "interval[%s, right]" % p["sub"]]
        elif fam == "sparse" and engine == "pandas":
            out += [pd.SparseDtype(p["sub"]), "Sparse[%s]" % p["sub"]]
    elif engine == "polars":
        import polars as pl

        if fam == "datetime":
            tz = None if p["tz"] == "none" else p["tz"]
            if p["unit"] in ("ns", "us", "ms"):
                out.append(pl.Datetime(p["unit"], tz))
                from pandera.engines import polars_engine as PL

                out.append(PL.DateTime(time_zone=tz, time_unit=p["unit"]))
        elif fam == "timedelta":
            if p["unit"] in ("ns", "us", "ms"):
                out.append(pl.Duration(p["unit"]))
        elif fam == "decimal":
            if p["scale"] <= p["precision"]:
                out.append(pl.Decimal(p["precision"], p["scale"]))
        elif fam == "category":
            if p["cats"] == "none":
                out.append(pl.Categorical())
            elif p["cats"] in ("ab", "ba") and not p["ordered"]:
                out.append(pl.Enum(list(p["cats"])))
        elif fam == "nested":
            inner = {"int64": pl.Int64, "str": pl.String, "float64": pl.Float64}[p["inner"]]
            out += [pl.List(inner), pl.Array(inner, 2), pl.Struct({"a": inner})]
    elif engine == "pyspark":
        import pyspark.sql.types as T

        if fam == "decimal":
            if p["scale"] <= p["precision"]:
                out.append(T.DecimalType(p["precision"], p["scale"]))
        elif fam == "nested":
            inner = {"int64": T.LongType(), "str": T.StringType(), "float64": T.DoubleType()}[p["inner"]]
            out += [T.ArrayType(inner), T.MapType(T.StringType(), inner)]
    return out


def _arrow_type(p: Dict[str, Any]):
    import pyarrow as pa

    k = p["atype"]
    if k == "timestamp":
        return pa.timestamp(p["unit"], None if p["tz"] == "none" else p["tz"])
    if k == "duration":
        return pa.duration(p["unit"])
    if k == "time32":
        return pa.time32(p["unit"]) if p["unit"] in ("s", "ms") else None
    if k == "time64":
        return pa.time64(p["unit"]) if p["unit"] in ("us", "ns") else None
    if k == "decimal128":
        return pa.decimal128(p["precision"], p["scale"]) if p["scale"] <= p["precision"] else None
    if k == "list":
        return pa.list_({"int64": pa.int64(), "str": pa.string(), "float64": pa.float64()}[p["inner"]])
    if k == "dictionary":
        return pa.dictionary(pa.int32(), pa.string())
    return getattr(pa, k)()


def main(argv: List[str]) -> int:
    out_path, engine_name, params_path = argv[0], argv[1], argv[2]
    params = json.loads(open(params_path).read()) if params_path != "-" else []
    warnings.filterwarnings("ignore")
    sys.setprofile(_profile)
    try:
        import pandera  # noqa: F401  (imports numpy + pandas engines)
        from pandera import dtypes as D
        from pandera.engines import engine as EN

        if engine_name == "numpy":
            from pandera.engines import numpy_engine as M
        elif engine_name == "pandas":
            from pandera.engines import pandas_engine as M
        elif engine_name == "pandas+pyarrow":
            # pandas_engine imports pyarrow_engine lazily, the first time a parameterised arrow dtype is
            # resolved; that import re-registers every arrow alias: a second registry state
            from pandera.engines import pandas_engine as M
            sys.setprofile(_profile)
            from pandera.engines import pyarrow_engine  # noqa: F401
            sys.setprofile(None)
        elif engine_name == "polars":
            from pandera.engines import polars_engine as M
        elif engine_name == "pyspark":
            from pandera.engines import pyspark_engine as M
        else:
            raise SystemExit("unknown engine " + engine_name)
    finally:
        sys.setprofile(None)
    E = M.Engine
    reg = EN.Engine._registry[E]
    base = E._base_pandera_dtypes

    keys: List[Any] = []
    key_ix: Dict[int, int] = {}

    def kid(k: Any) -> int:
        # keys are identified the way the registry identifies them: by hash/eq when hashable
        for i, q in enumerate(keys):
            if q is k:
                return i + 1
        try:
            hash(k)
            for i, q in enumerate(keys):
                try:
                    # exactly the identity a dict gives its keys (Float() and Float64() share a slot, and
                    # so do pd.ArrowDtype(bool) and the string "bool[pyarrow]")
                    if hash(q) == hash(k) and (q == k) is True:
                        return i + 1
                except Exception:  # noqa: BLE001
                    continue
        except TypeError:
            pass
        keys.append(k)
        return len(keys)

    def clsname(c: Any) -> str:
        return "%s.%s" % (c.__module__.split(".")[-1], c.__qualname__)

    events = []
    for eng, cls, kind, ks in HISTORY:
        if eng is not E:
            continue
        events.append({"cls": clsname(cls), "kind": kind, "keys": [kid(k) for k in ks]})
    # the final registry must be what the history builds (checked by TLC, RegistryIsHistory)
    final_equiv = [[kid(k), clsname(type(v))] for k, v in reg.equivalents.items()]
    final_disp = []
    for src, fn in reg.dispatch.registry.items():
        if src is object:
            continue
        target = None
        for cell in (fn.__closure__ or ()):
            c = cell.cell_contents
            if inspect.isclass(c):
                target = c
        final_disp.append([kid(src), clsname(target) if target else "?"])
    nreg = len(keys)
    for c in sorted(E._registered_dtypes, key=clsname):
        kid(c)
    param_ids = set()
    fam_engine = "pandas" if engine_name.startswith("pandas") else engine_name
    for p in params:
        if engine_name == "pandas" and p["family"] == "arrow":
            continue    # would trigger the lazy import of pyarrow_engine half-way through the table
        for k in param_keys(fam_engine, p):
            param_ids.add(kid(k))
    # abstract pandera types (class and instance spellings)
    for name in sorted(dir(D)):
        c = getattr(D, name)
        if inspect.isclass(c) and issubclass(c, D.DataType) and c is not D.DataType and not name.startswith("_"):
            kid(c)
            try:
                kid(c())
            except Exception:  # noqa: BLE001
                pass

    objs: List[Any] = []
    obj_ix: Dict[Tuple, int] = {}

    def oid(o: Any) -> int:
        for i, q in enumerate(objs):
            if q is o:
                return i + 1
        sk = struct_key(o)
        if sk in obj_ix:
            return obj_ix[sk]
        objs.append(o)
        obj_ix[sk] = len(objs)
        return len(objs)

    def resolve(k: Any) -> Tuple[int, str]:
        try:
            with warnings.catch_warnings():
                warnings.simplefilter("ignore")
                r = E.dtype(k)
        except Exception as exc:  # noqa: BLE001
            return 0, type(exc).__name__
        return oid(r), ""

    res, errs = [], []
    i = 0
    while i < len(keys):
        o, e = resolve(keys[i])
        res.append(o)
        errs.append(e)
        i += 1

    key_recs = []
    disp_sources = {k for k, _ in final_disp}
    for i, k in enumerate(keys):
        form = ("str" if isinstance(k, str)
                else "engine_instance" if isinstance(k, base)
                else "engine_class" if inspect.isclass(k) and not hasattr(k, "__origin__") and issubclass(k, base)
                else "abstract_instance" if isinstance(k, D.DataType)
                else "abstract_class" if inspect.isclass(k) and issubclass(k, D.DataType)
                else "class" if inspect.isclass(k) else "instance")
        tkey = 0
        mro: List[int] = []
        if not inspect.isclass(k):
            for j, q in enumerate(keys):
                if q is type(k):
                    tkey = j + 1
            for c in type(k).__mro__:
                for j, q in enumerate(keys):
                    if q is c and (j + 1) in disp_sources:
                        mro.append(j + 1)
        key_recs.append({"id": i + 1, "sp": spelling(k)[:120], "form": form, "tkey": tkey, "mro": mro,
                         "cls": clsname(k if inspect.isclass(k) else type(k)) if form.startswith("engine_") else "",
                         "inreg": i < nreg, "param": (i + 1) in param_ids})

    # close the object table under resolve-again and resolve-printed-name (structural dedupe keeps it finite)
    res2: List[int] = []
    resprint: List[int] = []
    strs: List[str] = []
    j = 0
    while j < len(objs) and j < 2000:
        o = objs[j]
        r2, _ = resolve(o)
        res2.append(r2)
        try:
            s = str(o)
        except Exception as exc:  # noqa: BLE001
            s = "<str raises %s>" % type(exc).__name__
        strs.append(s)
        rp, _ = resolve(s) if not s.startswith("<str raises") else (0, "")
        resprint.append(rp)
        j += 1

    n = len(objs)
    hashes: List[Any] = []
    for o in objs:
        try:
            hashes.append(hash(o))
        except Exception:  # noqa: BLE001
            hashes.append(None)
    ranks = {h: r + 1 for r, h in enumerate(sorted({h for h in hashes if h is not None}))}
    obj_recs = []
    for a in range(n):
        oa = objs[a]
        eqs, chk = [], []
        for b in range(n):
            ob = objs[b]
            try:
                if oa == ob:
                    eqs.append(b + 1)
            except Exception:  # noqa: BLE001
                pass
            try:
                c = oa.check(ob)
                if isinstance(c, (bool,)) or type(c).__name__ == "bool_":
                    if bool(c):
                        chk.append(b + 1)
                else:
                    chk.append(b + 1) if bool(c is not False and c is not None and _truthy(c)) else None
            except Exception:  # noqa: BLE001
                pass
        ns = native_sig(oa)
        ds = declared_sig(oa)
        obj_recs.append({"id": a + 1, "cls": clsname(type(oa)), "str": strs[a] if a < len(strs) else "",
                         "hash": ranks.get(hashes[a], 0), "nkind": ns[0], "nsigned": ns[1], "nbits": ns[2],
                         "dkind": ds[0], "dsigned": ds[1], "dbits": ds[2],
                         "physical": ns[0] in PHYSICAL_KINDS, "primitive": ns[0] in PRIMITIVE_KINDS and ds[0] != "decimal",
                         "res2": res2[a] if a < len(res2) else 0, "resprint": resprint[a] if a < len(resprint) else 0,
                         "eq": eqs, "check": chk})
    doc = {"engine": engine_name, "lazy_pyarrow_engine": "pandera.engines.pyarrow_engine" in sys.modules, "events": events, "final_equiv": final_equiv, "final_disp": final_disp,
           "keys": key_recs, "res": res, "errs": errs, "objs": obj_recs}
    with open(out_path, "w") as fh:
        json.dump([doc], fh)
    return 0


def _truthy(c: Any) -> bool:
    try:
        return bool(c)
    except Exception:  # noqa: BLE001
        try:
            return bool(all(c))
        except Exception:  # noqa: BLE001
            return False


if __name__ == "__main__":
    sys.exit(main(sys.argv[1:]))
