"""The named predicate family of the specification (Checks!CustomHolds), as Python functions.

Each function is total on numbers, answers False for a null it is shown (except `true`), and logs every
argument it receives, so that "never shown to the function" is observed and not inferred.
"""
from __future__ import annotations

import math
from typing import Any, Dict, List

SHOWN: List[Any] = []

SCALAR = {
    "pos": lambda x: x > 0,
    "even": lambda x: x % 2 == 0,
    "le1": lambda x: x <= 1,
    "nonneg": lambda x: x >= 0,
    "true": lambda x: True,
    "false": lambda x: False,
}


def _is_null(x) -> bool:
    import pandas as pd

    return x is None or x is pd.NA or (isinstance(x, float) and math.isnan(x))


def make_fn(name: str, element_wise: bool):
    f = SCALAR[name]

    if element_wise:
        def fn(x):
            SHOWN.append(x)
            if _is_null(x):
                return name == "true"
            return bool(f(x))
        return fn

    def vfn(s):
        SHOWN.extend(s.tolist())
        return s.map(lambda x: (name == "true") if _is_null(x) else bool(f(x))).astype(bool)
    return vfn


def make_check(c: Dict[str, Any], pa):
    kw = {"ignore_na": bool(c["ina"]), "element_wise": bool(c["ew"])}
    if c.get("nfc"):
        kw["n_failure_cases"] = int(c["nfc"])
    if c.get("warn"):
        kw["raise_warning"] = True
    name = c["a"][0]
    if isinstance(name, list):
        raise ValueError("custom predicate name expected")
    return pa.Check(make_fn(name, bool(c["ew"])), **kw)
