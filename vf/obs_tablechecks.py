"""Replay TableChecks.tla: a dataframe-level Check applied to a frame, directly and through DataFrameSchema (C19)."""
from __future__ import annotations

import warnings
from typing import Any, Dict, List


def _col(cells: List[List[Any]]):
    import numpy as np

    return np.array([np.nan if c[0] == "na" else c[1] / 2.0 for c in cells], dtype="float64")


def _fn(pred: str, X="x", Y="y"):
    import pandas as pd

    if pred == "cells_pos":
        return (lambda df: df > 0), False
    if pred == "row_x_le_y":
        return (lambda df: df[X] <= df[Y]), False
    if pred == "ew_row_x_le_y":
        return (lambda row: bool(row[X] <= row[Y])), True
    if pred == "sum_x_pos":
        return (lambda df: bool(df[X].sum() > 0)), False
    raise ValueError(pred)


_WARM: list = []


def observe_tablecheck(vec: Dict[str, Any]) -> Dict[str, Any]:
    import pandas as pd
    import pandera as pa

    out: Dict[str, Any] = {}
    if not _WARM:
        # back ends are registered lazily by the first schema validation in a process
        pa.DataFrameSchema({"q": pa.Column(float)}).validate(pd.DataFrame({"q": [1.0]}))
        _WARM.append(True)
    with warnings.catch_warnings(record=True) as wlog:
        warnings.simplefilter("always")
        n = len(vec["x"])
        ixk = vec.get("ix", "unique")
        labels = [10 * ((i + 2) // 2 if ixk in ("dup", "multidup") else i + 1) for i in range(n)]
        index = pd.MultiIndex.from_arrays([labels, [0] * n], names=["p", "q"]) if ixk.startswith("multi") else pd.Index(labels)
        X, Y = {"intcols": (0, 1), "tuplecols": (("k", "x"), ("k", "y"))}.get(ixk, ("x", "y"))
        df = pd.DataFrame({X: _col(vec["x"]), Y: _col(vec["y"])}, index=index)
        fn, ew = _fn(vec["pred"], X, Y)
        kw: Dict[str, Any] = {"ignore_na": bool(vec["ina"]), "element_wise": ew}
        if vec["nfc"]:
            kw["n_failure_cases"] = int(vec["nfc"])
        check = pa.Check(fn, raise_warning=bool(vec["warn"]), **kw)
        try:
            r = check(df)
            out["passed"] = bool(r.check_passed)
        except Exception as e:  # noqa: BLE001
            out["direct_error"] = "%s: %s" % (type(e).__name__, str(e)[:120])
        schema = pa.DataFrameSchema({X: pa.Column(float, nullable=True), Y: pa.Column(float, nullable=True)}, checks=[check])
        for mode, lazy in (("eager", False), ("lazy", True)):
            try:
                res = schema.validate(df, lazy=lazy)
                out[mode] = "ok"
                out[mode + "_same"] = bool(res.equals(df))
            except pa.errors.SchemaErrors as e:
                out[mode] = "SchemaErrors"
                out["check_error"] = sorted({x.reason_code.name for x in e.schema_errors if x.reason_code.name == "CHECK_ERROR"})
                out["check_error_msg"] = [str(x.failure_cases)[:120] for x in e.schema_errors if x.reason_code.name == "CHECK_ERROR"][:1]
            except pa.errors.SchemaError:
                out[mode] = "SchemaError"
            except Exception as e:  # noqa: BLE001
                out[mode] = "Leak:" + type(e).__name__
        out["warned"] = sum(1 for w in wlog if issubclass(w.category, pa.errors.SchemaWarning)) if hasattr(pa.errors, "SchemaWarning") else \
            sum(1 for w in wlog if "failed" in str(w.message) or "Check" in str(w.message))
    return out
