"""`check <Cxx> [--tier quick|thorough] [--replay file]` - see DESIGN.md section 6."""
from __future__ import annotations

import argparse
import os
import sys


def main(argv=None) -> int:
    ap = argparse.ArgumentParser(prog="check")
    ap.add_argument("prop", nargs="?")
    ap.add_argument("--tier", default=os.environ.get("VERIF_TIER", "quick"), choices=["quick", "thorough"])
    ap.add_argument("--replay")
    ap.add_argument("--setup", action="store_true")
    ap.add_argument("--selftest", action="store_true")
    ap.add_argument("--list", action="store_true")
    ap.add_argument("--coverage", action="store_true")
    args = ap.parse_args(argv)
    seed = int(os.environ.get("VERIF_SEED", "0") or 0)
    os.environ.setdefault("PYTHONHASHSEED", "0")
    os.environ.setdefault("PANDERA_VERIF", "1")
    if args.setup:
        from . import setup

        return setup.main()
    if args.coverage:
        from . import vacuity

        return vacuity.main()
    if args.selftest:
        from . import selftest

        return selftest.main()
    from .props import registry

    reg = registry()
    if args.list:
        for k in sorted(reg):
            print(k, reg[k].title)
        return 0
    if args.prop not in reg:
        print("unknown property %r; known: %s" % (args.prop, ", ".join(sorted(reg))), file=sys.stderr)
        return 2
    from . import core

    if args.replay:
        return core.replay_file(reg[args.prop], args.replay)
    return core.execute(reg[args.prop], args.tier, seed)


if __name__ == "__main__":
    try:
        rc = main()
    except SystemExit:
        raise
    except BaseException as exc:  # noqa: BLE001 - a failure of the machinery is never a verdict (exit 2, not 1)
        import traceback

        traceback.print_exc()
        print("MACHINERY-ERROR %s: %s" % (type(exc).__name__, str(exc)[:300]), file=sys.stderr)
        rc = 2
    sys.exit(rc)
