"""Replay one backend-neutral vector on pandas AND polars (C08)."""
from __future__ import annotations

import math
import warnings
from typing import Any, Dict

from . import conc, conc_polars, proj


def _pandas(vec) -> Dict[str, Any]:
    import pandas as pd
    import pandera as pa

    schema = conc.frame_schema(vec["schema"])
    df = conc.pd_frame(vec["data"])
    rec: Dict[str, Any] = {}
    try:
        out = schema.validate(df, lazy=True)
        rec["kind"] = "ok"
        rec["returned"] = proj.frame(out)
    except pa.errors.SchemaErrors as e:
        rec["kind"] = "raises"
        cells, scalars = [], []
        for x in e.schema_errors:
            fc = x.failure_cases
            if isinstance(fc, pd.DataFrame):
                col = fc["column"].tolist() if "column" in fc.columns else [getattr(x, "column_name", None) or x.schema.name] * len(fc)
                for c, i in zip(col, fc["index"].tolist()):
                    cells.append([proj.aval(c), proj.aval(i), x.reason_code.name])
                if len(fc) == 0:
                    scalars.append(x.reason_code.name)
            else:
                scalars.append(x.reason_code.name)
        rec["cells"] = cells
        rec["scalars"] = sorted(scalars)
    except Exception as e:  # noqa: BLE001
        rec["kind"] = "Leak:" + type(e).__name__
        rec["msg"] = str(e)[:200]
    return rec


def _pl_value(x):
    if x is None:
        return ["na", 0]
    if isinstance(x, float) and math.isnan(x):
        return ["nan", 0]
    return proj.aval(x)


def _polars(vec) -> Dict[str, Any]:
    import polars as pl
    import pandera as pa

    schema = conc_polars.pl_schema(vec["schema"])
    df = conc_polars.pl_frame(vec["data"])
    rec: Dict[str, Any] = {}
    try:
        out = schema.validate(df, lazy=True)
        rec["kind"] = "ok"
        rec["type"] = type(out).__name__
        cols = []
        for name in out.columns:
            s = out[name]
            cols.append({"name": proj.aval(name), "pd": str(s.dtype), "cells": [_pl_value(x) for x in s.to_list()]})
        rec["returned"] = {"cols": cols, "idx": [["i", i] for i in range(out.height)]}
    except pa.errors.SchemaErrors as e:
        rec["kind"] = "raises"
        cells, scalars = [], []
        rep = e.failure_cases          # consolidated report: one row per failing cell, index = row position
        for row in rep.iter_rows(named=True):
            if row.get("index") is not None:
                cells.append([proj.aval(row["column"]), ["i", int(row["index"])], row.get("check")])
        for x in e.schema_errors:
            scalars.append(x.reason_code.name)
        rec["counts"] = {k: int(v) for k, v in dict(e.error_counts).items()}
        rec["cells"] = cells
        rec["scalars"] = sorted(scalars)
    except Exception as e:  # noqa: BLE001
        rec["kind"] = "Leak:" + type(e).__name__
        rec["msg"] = str(e)[:200]
    return rec


def observe_neutral(vec: Dict[str, Any]) -> Dict[str, Any]:
    with warnings.catch_warnings():
        warnings.simplefilter("ignore")
        return {"pandas": _pandas(vec), "polars": _polars(vec)}
